#!/usr/bin/env python3
"""Regenerates /verif/MANIFEST.json from the table below; a property is claimed once its check
binary exists (harness/src/bin/<id>.rs). Developer aid, not needed at check time."""
import json, os
root = os.path.dirname(os.path.dirname(os.path.abspath(__file__)))

BASELINE = ("cd /repo && if [ -f /w/lib/nextest.toml ]; then cargo nextest run --workspace --no-fail-fast "
            "--tool-config-file pb:/w/lib/nextest.toml --profile pb --test-threads 8 --offline; "
            "else cargo test --workspace --no-fail-fast --offline; fi")

TRUST = ("Trusted base: the harness's own reference models/oracles and recording targets (harness/src), rustc, and that "
         "the checked profile (opt-level 2 + overflow checks + debug assertions) exercises the same source as a user build. "
         "Only executions the workload produced are decided; the evidence file says how many and which kinds.")

P = {
 "c01": ("exploration", "relational oracle between the drawing paths (draw on a draw_iter-only target, draw on a native-fill target that pulls every colour, draw on a native-fill target that skips invisible colours with Iterator::nth, pixels() via draw_iter) on bounded/unbounded boxes and through cropped/clipped/translated views of a parent; recorded pixel maps compared, also on targets that consume with for_each (Iterator::fold); pixels() consumed through count/last/fold/nth; thin one-colour rounded rectangles with independently confined radii; fonts with tens of thousands of glyphs",
         "Every generated drawable (8 styled primitives, polylines, raw images and sub-images in several colour depths, text in built-in and custom fonts) is rendered by the real code on two recording targets and through pixels(); the final pixel maps must be equal. Exhaustive over small sizes/styles, random beyond.", "4 C01"),
 "c02": ("exploration", "event-log invariant: every point a drawable touches on an unbounded recording target must satisfy bounding_box().contains; transparent styles touch nothing; polylines whose vertices field was assigned after construction compared with freshly constructed ones",
         "Touched-point sets of real draw() runs are checked against bounding_box() for all drawables incl. text in every built-in font of the working tree x decorations x baselines x alignments x line heights.", "4 C02"),
 "c03": ("exploration", "online reference-model monitor: set-theoretic model of adapter stacks (clipped/cropped/translated/color_converted, depth <= 3) run in lockstep with random operation histories; parent state, event log and bounding boxes compared after every operation; parents pulling with next() or consuming with for_each, streams with exact, partial and absent size hints; virtual canvases (areas up to 2^20 wide with up to 2^20 rows above the parent window, colour streams positioning in O(1), offsets of the first visible colour up to 2^36), half of the offsets exact special values (multiples of 2^16 - 1, 2^16, powers of two and neighbours)",
         "Random histories of draw_iter/fill_contiguous/fill_solid/clear with unique colours per write through all adapter nestings up to depth 3 over native and default-fill parents with arbitrary boxes; the innermost parent's pixel map must equal the model's after each operation, nothing outside the composed clip may reach it, and the trait defaults must emit exactly zip(row-major points, colours).", "4 C03"),
 "c04": ("fault_enumeration", "fault injection at the DrawTarget boundary: for every drawable/adapter stack the fault-free call log is recorded, then each k-th call is failed with a unique error value; offline check of the event log (no call after the fault, prefix equals fault-free log, returned error identical); dotted rectangles with hundreds of dots per side",
         "Enumerates the failing call index k over the n calls of each fault-free run (all k when n <= 48, else first/last/random 16 each).", "4 C04"),
 "c05": ("exploration", "relational oracle points() vs contains() (through the PointsIter/ContainsPoint traits) on the real primitives, probing contains() on the bounding box plus a margin and on far-away points; order/uniqueness/bounding-box invariants on the yielded sequence; the iterator consumed through count/last/fold/nth/skip from partly consumed states; shapes with one side beyond 16 bits walked row by row",
         "Exhaustive over small sizes, radii, vertex grids and angle grids, random beyond.", "4 C05"),
 "c06": ("exploration", "reference model built from fill_area()/stroke_area().contains() compared with the recorded pixel maps of draw() (both targets, unbounded and bounded boxes) and pixels(); geometric oracle for the grown/shrunk areas; shapes with one side beyond 16 bits; circles of 600..1400 px; every case also drawn from a Styled whose public fields were assigned after construction",
         "Exhaustive over the four closed shapes x small sizes x stroke widths (also wider than the shape, and inside strokes of extreme width up to u32::MAX) x alignments x colour presence.", "4 C06"),
 "c07": ("exploration", "metamorphic relation monitored on recorded pixel maps (unbounded and bounded targets): render(x.translate(d)) == shift(render(x), d), likewise points(), contains(), bounding boxes and text's returned position; translate_mut == translate; two translations add up; far offsets (around 2^15, 2^16, up to 10^6)",
         "All drawables of the zoo x offsets incl. axis crossings; polylines also by moving vertices.", "4 C07"),
 "c08": ("exploration", "sanitizer-style build (overflow checks + debug assertions) with panic monitor (attribution by panic location/backtrace), counting global allocator armed around library calls, iterator step budgets, per-case wall-clock watchdog (non-termination); boundary-biased display-scale workloads in the default and fixed_point feature sets; Miri pass over the rejection workload in the thorough tier",
         "Every constructor/query/draw over the stated display-scale domain is executed under the monitors; a repository panic, an allocation or an exhausted step budget is a violation.", "4 C08"),
 "c09": ("exploration", "independent decoder of the documented raw layouts as reference model; recorded pixel maps (unbounded and bounded targets; colour stream pulled with next() or skipped with nth()) and the number of colours drained from the fill_contiguous stream compared with the model; images with one side beyond 16 bits; sub-images starting at exact special offsets of the pixel stream",
         "7 raw widths x 2 data orders x small sizes exhaustive x random bytes x offsets x sub-image areas (nested twice).", "4 C09"),
 "c10": ("exploration", "history + executable model: random write histories on Framebuffer instantiations (7 depths x 2 orders x several sizes, exact and oversized buffers) with a reference map updated in lockstep; pixel(), data(), as_image() (drawn on unbounded and bounded targets) compared after every operation; fills reaching beyond i32::MAX (about 2^31 points walked by the documented default); histories that continue on a clone of the framebuffer",
         "Read-your-writes, no write outside, tail bytes untouched, layout equals ImageRaw's.", "4 C10"),
 "c11": ("exploration", "independent encoder of the two documented layouts as reference model for store/load; iterator positions and size_hint after random next()/nth() mixes compared with load(i); the iterator consumed through count/last/fold/skip, also after an overshooting nth(huge); documented bit widths; buffers up to megabytes (size_hint, load, nth, tail consumers, store); lazily mapped buffers with more than 2^32 pixels; nth after 1..=3 x next() on large buffers",
         "7 raw types x 2 orders x all indices in buffers 0..=L x all values up to 16 bits (exhaustive) / boundary+random 24/32 bits x background patterns.", "4 C11"),
 "c12": ("exploration", "exhaustive enumeration of every colour value and every raw value of all 14 colour types against the documented bit layouts (independent model); raw values obtained with RawData::load from packed bytes in both data orders",
         "Quick: all values up to 16 bits, per-channel exhaustive + random for 24-bit types; thorough: every value.", "4 C12"),
 "c13": ("exploration", "exhaustive enumeration of source colours for every From conversion between built-in colour types against exact rational scaling (nearest value, monotone, extremes, round trips, luma thresholds); sources made with constructors and from raw data with arbitrary padding bits",
         "Quick: all values up to 16 bits, per-channel exhaustive + random for 24-bit sources; thorough: every source value of every pair.", "4 C13"),
 "c14": ("exploration", "reference model of glyph placement (atlas cell designated by the font's mapping, read with font.image.pixel) compared with the recorded pixel map of Text::draw on unbounded and bounded targets; data checks over every built-in font and mapping incl. all 1.1 million scalar values per mapping; range mappings across the surrogate gap; fonts with tens of thousands of glyphs; special characters at string starts",
         "All built-in fonts of the working tree x every mapped character + unmapped ones x colour/decoration combinations; custom fonts with spacing and odd atlases.", "4 C14"),
 "c15": ("exploration", "relational oracles on recorded pixel maps and returned positions: draw vs measure_string, chained drawing vs concatenation, alignment/baseline geometry of the painted line boxes, multi-line vs separately drawn lines, CRLF vs LF, same position and visible part on bounded targets; exhaustive sweep of LineHeight::to_absolute against floor(base * percent / 100); special characters (byte order mark, separators, non-characters) at string and line starts; every text also drawn with a style assembled by assigning the public fields of a style constructed for another font and by a builder that sets the font last",
         "Strings incl. empty lines/trailing newline/CRLF/unmapped characters x built-in fonts x alignments x baselines x line heights x decorations x positions.", "4 C15"),
 "c16": ("exploration", "reference model (explicit point sets / i64 interval pairs) compared with the public Rectangle methods (contains and offset through the inherent methods and the ContainsPoint/OffsetOutline traits, points() also through count/last/fold/nth from partly consumed states); exhaustive over a small grid, random up to +-2^20; operands from powers of two, their neighbours and 1.5 x 2^k",
         "All ordered pairs of grid rectangles incl. zero sizes, every rectangle x anchors x sizes x offsets, plus random large rectangles.", "4 C16"),
 "c17": ("exploration", "exact integer oracle of the statement over the point sequences of Line::points() and Styled<Line>::pixels(): end points, count, unit steps, half-pixel error bound, thick-line containment/uniqueness/distance/extent/width bounds for all three stroke alignments; draw() on unbounded and bounded targets == pixels(); both iterators consumed through count/last/fold/nth/skip from partly consumed states; lines far from the origin (beyond 16 bits); special deltas (Fibonacci pairs, powers of two +- 1, multiples)",
         "All end points in a grid x widths (exhaustive) plus random long lines.", "4 C17"),
 "c18": ("exploration", "exact/f64 geometric oracles (doubled-coordinate distance for circles, closest-point distance to ellipse/corner curves with guard bands, angle test for arcs/sectors) plus equivalence relations between primitives; both arithmetic back-ends; confine_radii() arithmetic on millions of display-scale rectangles (sums never exceed the side, fitting radii unchanged, no radius grows); circles up to 2100 px; ellipses with both axes 100..600 px",
         "Exhaustive over diameters/axis pairs/radius combinations/1-degree angle grids up to the stated bounds, random fractional angles; default and fixed_point builds.", "4 C18"),
 "c19": ("exploration", "exact cross-product oracles over point sets from Triangle::points(), Styled<Triangle>::pixels() and Polyline::points(): interior coverage, 1-px edge band, vertex-order independence, shared-edge gap freedom, outline/polyline = union of Line segments; draw() of fills, outlines and polylines on unbounded and bounded targets; triangles and polylines far from the origin; edges of 2500..6500 px",
         "All vertex triples on a small grid (exhaustive) and random larger ones; all pairs of triangles sharing an edge; polylines of 0..=6 vertices.", "4 C19"),
 "c20": ("exploration", "history + executable model: independent map model of MockDisplay run in lockstep with random draw histories under the four flag combinations (set explicitly or left at their documented defaults, displays built with new/default/from_points/clone), every operation inside catch_unwind (panic iff the model predicts one); pattern/Debug round trips; far points that alias a display cell modulo 64, 4096 or a power of two; single calls with more than 2^20 points; flags reached through sequences of setter calls",
         "Random histories with in/out-of-range and repeated points; all colour alphabets for from_pattern/Debug.", "4 C20"),
}

checks = []
na = []
for pid in sorted(P):
    level, tech, text, ref = P[pid]
    if not os.path.exists(f"{root}/harness/src/bin/{pid}.rs"):
        na.append({"property_id": pid.upper(), "reason": "check not built yet in this session (machinery under construction; the technique applies, see DESIGN.md section " + ref + ")"})
        continue
    checks.append({
        "property_id": pid.upper(),
        "quick_cmd": f"./check {pid} quick",
        "thorough_cmd": f"./check {pid} thorough",
        "evidence_file": f"/verif/evidence/{pid.upper()}.json",
        "replay_cmd_template": f"./check {pid} --replay {{path}}",
        "engine": "egmon",
        "level_claimed": {"category": level, "text": text + " Held-on-what-was-observed only: the verdict covers the executions listed in the evidence file, not all inputs.", "design_ref": "DESIGN.md section " + ref},
        "level_note": TRUST,
        "technique": "runtime monitoring: " + tech,
    })

m = {
    "version": 1,
    "setup_cmd": "./check --setup",
    "hooks": {
        "guard": "--cfg eg_verif",
        "enable": "no hooks are needed: every monitored event is observable at the public API boundary; checks build /repo's working tree unmodified as a path dependency (profile `checked`: overflow checks + debug assertions)",
        "baseline_off_cmd": BASELINE,
        "source_commits": [],
        "add_only": True,
    },
    "engines": [{"name": "egmon", "path": "/verif/harness", "serves_properties": [c["property_id"] for c in checks],
                 "kind_free_text": "Rust harness crate (path dependency on /repo): workload generators, recording/fault-injecting DrawTargets, panic and allocation monitors, reference models and oracles, evidence writer"}],
    "checks": checks,
    "notes": "Exit codes: 0 held on everything explored (possibly with KNOWN-FINDING lines), 1 VIOLATION, 2 INCONCLUSIVE (build failure / harness error / too little observed). Known findings: /verif/known_findings.txt. VERIF_SEED and VERIF_TIER are honoured.",
    "not_applicable": na,
}
json.dump(m, open(root + "/MANIFEST.json", "w"), indent=1)
print("claimed", len(checks), "not yet", len(na))
