#!/usr/bin/env bash
# Runs the repository's pinned test suite (hooks: none) and prints the pass/fail summary.
cd /repo || exit 2
if [ -f /w/lib/nextest.toml ]; then
  cargo nextest run --workspace --no-fail-fast --tool-config-file pb:/w/lib/nextest.toml --profile pb --test-threads 8 --offline 2>&1 | grep -E "Summary|FAIL|tests run" | tail -5
else
  cargo test --workspace --no-fail-fast --offline 2>&1 | grep -E "test result|FAILED" | tail -12
fi
