#!/usr/bin/env python3
"""Validate MANIFEST.json and evidence files against the schemas in /root/.vp (developer aid)."""
import json, sys, glob, os
try:
    import jsonschema
except ImportError:
    sys.path.insert(0, '/opt/veriftools/pyvenv/lib/python3.11/site-packages')
    import jsonschema
root = os.path.dirname(os.path.dirname(os.path.abspath(__file__)))
ok = True
def check(path, schema):
    global ok
    try:
        jsonschema.validate(json.load(open(path)), json.load(open(schema)))
        print("ok  ", path)
    except Exception as e:
        ok = False
        print("FAIL", path, str(e)[:400])
if os.path.exists(root + '/MANIFEST.json'):
    check(root + '/MANIFEST.json', '/root/.vp/MANIFEST.schema.json')
for f in sorted(glob.glob(root + '/evidence/C*.json')):
    check(f, '/root/.vp/EVIDENCE.schema.json')
sys.exit(0 if ok else 1)
