#!/usr/bin/env bash
# Soak run: every check at several seeds into a scratch output directory (never /verif/evidence);
# prints one line per run and a summary of everything that was not silent.
#   tools/soak.sh quick "1 2 3 4 5" [checks...]
ROOT="$(cd "$(dirname "${BASH_SOURCE[0]}")/.." && pwd)"
TIER="${1:-quick}"; SEEDS="${2:-1 2 3}"; shift 2 || true
CHECKS="${*:-c01 c02 c03 c04 c05 c06 c07 c08 c09 c10 c11 c12 c13 c14 c15 c16 c17 c18 c19 c20}"
OUT="${SOAK_OUT:-/tmp/soak-out}"; mkdir -p "$OUT"
bad=0
for s in $SEEDS; do
  for c in $CHECKS; do
    log="$OUT/$c-$TIER-$s.log"
    t0=$(date +%s)
    VERIF_SEED=$s VERIF_OUT="$OUT" "$ROOT/check" "$c" "$TIER" >"$log" 2>&1
    code=$?
    t1=$(date +%s)
    line="$(grep -E '^\[C[0-9]+\]' "$log" | tail -1 | cut -c1-150)"
    echo "seed=$s $c exit=$code $((t1-t0))s $line"
    if [ $code -ne 0 ] || grep -q "^VIOLATION\|^INCONCLUSIVE" "$log"; then
      bad=$((bad+1)); echo "  !! NOT SILENT: $log"; grep -E "^VIOLATION|^INCONCLUSIVE|violation signature" "$log" | head -3 | cut -c1-300
    fi
  done
done
echo "soak finished: $bad run(s) not silent"
rm -rf "$OUT/evidence" "$OUT/replays"
