#!/usr/bin/env python3
"""Prints one line per property from a directory of evidence files (default /verif/evidence):
tier, evaluations, distinct non-trivial cases, slowest case, wall time - the numbers quoted in DESIGN.md 4."""
import json, sys, glob, os
d = sys.argv[1] if len(sys.argv) > 1 else os.path.join(os.path.dirname(os.path.dirname(os.path.abspath(__file__))), "evidence")
for f in sorted(glob.glob(os.path.join(d, "C*.json"))):
    e = json.load(open(f))
    s = json.dumps(e)
    cov = e.get("coverage", {})
    obs = e.get("observed", e.get("observations", {}))
    def find(key, obj=e):
        if isinstance(obj, dict):
            if key in obj: return obj[key]
            for v in obj.values():
                r = find(key, v)
                if r is not None: return r
        if isinstance(obj, list):
            for v in obj:
                r = find(key, v)
                if r is not None: return r
        return None
    print("%s tier=%s evals=%s distinct=%s slowest_case=%.1fs wall=%s gens=%s" % (os.path.basename(f)[:-5], find("tier"), find("evaluations"), find("distinct_nontrivial"), (find("max_slowest_case_tenths_of_a_second") or 0) / 10.0, find("wall_seconds") or find("wall_s"), len(find("generators") or [])))
