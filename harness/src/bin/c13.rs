//! C13 — colour conversions scale to the nearest value and preserve the extremes.
//! Enumeration of source colours for every From conversion against exact rational scaling.
use egmon::{jobj, main_with, rng::mix, Ctx, Run};
use embedded_graphics::pixelcolor::{raw::{RawData, RawU1}, *};
use std::fmt::Debug;

#[derive(Clone, Copy, PartialEq, Eq, Debug)]
enum Kind {
    Rgb,
    Gray,
    Bin,
}

trait CI: Copy + PartialEq + Debug + Send + Sync + 'static {
    const NAME: &'static str;
    const KIND: Kind;
    /// bits per channel (gray/binary: the single channel repeated)
    const BITS: [u32; 3];
    fn ch(self) -> [u32; 3];
    fn make(ch: [u32; 3]) -> Self;
    /// the colour as an image or framebuffer obtains it: from a raw value (all 32 bits arbitrary)
    fn from_raw(v: u32) -> Self;
    fn count() -> u64 {
        match Self::KIND {
            Kind::Rgb => 1u64 << (Self::BITS[0] + Self::BITS[1] + Self::BITS[2]),
            _ => 1u64 << Self::BITS[0],
        }
    }
    fn nth(i: u64) -> Self {
        match Self::KIND {
            Kind::Rgb => {
                let b = i & ((1 << Self::BITS[2]) - 1);
                let g = (i >> Self::BITS[2]) & ((1 << Self::BITS[1]) - 1);
                let r = i >> (Self::BITS[2] + Self::BITS[1]);
                Self::make([r as u32, g as u32, b as u32])
            }
            _ => Self::make([i as u32; 3]),
        }
    }
    fn max() -> [u32; 3] {
        [(1 << Self::BITS[0]) - 1, (1 << Self::BITS[1]) - 1, (1 << Self::BITS[2]) - 1]
    }
}

macro_rules! ci_rgb {
    ($t:ident, $r:expr, $g:expr, $b:expr) => {
        impl CI for $t {
            const NAME: &'static str = stringify!($t);
            const KIND: Kind = Kind::Rgb;
            const BITS: [u32; 3] = [$r, $g, $b];
            fn ch(self) -> [u32; 3] {
                [self.r() as u32, self.g() as u32, self.b() as u32]
            }
            fn make(ch: [u32; 3]) -> Self {
                $t::new(ch[0] as u8, ch[1] as u8, ch[2] as u8)
            }
            fn from_raw(v: u32) -> Self {
                $t::from(<<$t as PixelColor>::Raw as RawData>::from_u32(v))
            }
        }
    };
}
macro_rules! ci_gray {
    ($t:ident, $b:expr) => {
        impl CI for $t {
            const NAME: &'static str = stringify!($t);
            const KIND: Kind = Kind::Gray;
            const BITS: [u32; 3] = [$b, $b, $b];
            fn ch(self) -> [u32; 3] {
                [self.luma() as u32; 3]
            }
            fn make(ch: [u32; 3]) -> Self {
                $t::new(ch[0] as u8)
            }
            fn from_raw(v: u32) -> Self {
                $t::from(<<$t as PixelColor>::Raw as RawData>::from_u32(v))
            }
        }
    };
}
ci_rgb!(Rgb332, 3, 3, 2);
ci_rgb!(Rgb444, 4, 4, 4);
ci_rgb!(Rgb555, 5, 5, 5);
ci_rgb!(Bgr555, 5, 5, 5);
ci_rgb!(Rgb565, 5, 6, 5);
ci_rgb!(Bgr565, 5, 6, 5);
ci_rgb!(Rgb666, 6, 6, 6);
ci_rgb!(Bgr666, 6, 6, 6);
ci_rgb!(Rgb888, 8, 8, 8);
ci_rgb!(Bgr888, 8, 8, 8);
ci_gray!(Gray2, 2);
ci_gray!(Gray4, 4);
ci_gray!(Gray8, 8);
impl CI for BinaryColor {
    const NAME: &'static str = "BinaryColor";
    const KIND: Kind = Kind::Bin;
    const BITS: [u32; 3] = [1, 1, 1];
    fn ch(self) -> [u32; 3] {
        [self.is_on() as u32; 3]
    }
    fn make(ch: [u32; 3]) -> Self {
        if ch[0] & 1 == 1 {
            BinaryColor::On
        } else {
            BinaryColor::Off
        }
    }
    fn from_raw(v: u32) -> Self {
        BinaryColor::from(RawU1::from_u32(v))
    }
}

/// |out*FM - in*TM| * 2 <= FM : out is a representable value nearest to in*TM/FM
fn nearest(inp: u32, out: u32, fm: u32, tm: u32) -> bool {
    let d = (out as i64 * fm as i64 - inp as i64 * tm as i64).abs();
    d * 2 <= fm as i64
}

/// the exactly weighted luma of an RGB colour on the 0..=255 scale under four readings:
/// [anchored weights, channels rounded to 8 bits], [anchored, exact], [BT.601, rounded], [BT.601, exact]
fn luma_readings<S: CI>(c: S) -> [f64; 4] {
    let ch = c.ch();
    let m = S::max();
    let exact = |k: usize| ch[k] as f64 * 255.0 / m[k] as f64;
    let rounded = |k: usize| ((ch[k] as u64 * 255 * 2 + m[k] as u64) / (2 * m[k] as u64)) as f64;
    let anchored = |f: &dyn Fn(usize) -> f64| (77.0 * f(0) + 150.0 * f(1) + 29.0 * f(2)) / 256.0;
    let bt = |f: &dyn Fn(usize) -> f64| 0.299 * f(0) + 0.587 * f(1) + 0.114 * f(2);
    [anchored(&rounded), anchored(&exact), bt(&rounded), bt(&exact)]
}

fn check_value<S, T>(ctx: &mut Ctx, c: S, thorough_neighbours: bool)
where
    S: CI + From<T> + Into<Gray8>,
    T: CI + From<S>,
{
    ctx.eval();
    let t = T::from(c);
    let (sc, tc) = (c.ch(), t.ch());
    let (sm, tm) = (S::max(), T::max());
    let case = || format!("{}->{} source {:?}", S::NAME, T::NAME, c);
    let pair = || format!("{}->{}", S::NAME, T::NAME);
    let is_black = sc == [0, 0, 0];
    let is_white = sc == sm;
    if is_black && tc != [0, 0, 0] {
        ctx.violation(format!("{}|black-not-preserved", pair()), case, || format!("-> {:?}", t));
    }
    if is_white && tc != tm {
        ctx.violation(format!("{}|white-not-preserved", pair()), case, || format!("-> {:?}", t));
    }
    match (S::KIND, T::KIND) {
        (Kind::Rgb, Kind::Rgb) | (Kind::Gray, Kind::Gray) | (Kind::Gray, Kind::Rgb) => {
            // channel-wise nearest scaling
            for k in 0..3 {
                if !nearest(sc[k], tc[k], sm[k], tm[k]) {
                    ctx.violation(format!("{}|channel-not-nearest", pair()), case, || {
                        format!("channel {}: {} of {} -> {} of {} (exact {:.4})", k, sc[k], sm[k], tc[k], tm[k], sc[k] as f64 * tm[k] as f64 / sm[k] as f64)
                    });
                }
            }
            // widening and back is the identity
            if (0..3).all(|k| T::BITS[k] >= S::BITS[k]) {
                let back = S::from(t);
                if back != c {
                    ctx.violation(format!("{}|widening-roundtrip", pair()), case, || format!("-> {:?} -> {:?}", t, back));
                }
            }
            // RGB <-> BGR of equal depth keep all channels
            if S::KIND == Kind::Rgb && S::BITS == T::BITS && tc != sc {
                ctx.violation(format!("{}|equal-depth-channels-changed", pair()), case, || format!("-> {:?}", t));
            }
            // monotone in each channel (neighbour one step up in channel k)
            if thorough_neighbours {
                for k in 0..(if S::KIND == Kind::Rgb { 3 } else { 1 }) {
                    if sc[k] < sm[k] {
                        let mut up = sc;
                        up[k] += 1;
                        if S::KIND != Kind::Rgb {
                            up = [up[0]; 3];
                        }
                        let tu = T::from(S::make(up)).ch();
                        if (0..3).any(|j| tu[j] < tc[j]) {
                            ctx.violation(format!("{}|not-monotone", pair()), case, || format!("{:?} -> {:?} but one step up in channel {} -> {:?}", sc, tc, k, tu));
                        }
                    }
                }
            }
        }
        (Kind::Rgb, Kind::Gray) => {
            // library's own RGB -> Gray8 luma, then nearest scaling to the target depth
            let l8: Gray8 = c.into();
            let l8 = l8.luma() as u32;
            if !nearest(l8, tc[0], 255, tm[0]) {
                ctx.violation(format!("{}|gray-not-nearest-to-luma8", pair()), case, || format!("luma8 {} -> {} of {}", l8, tc[0], tm[0]));
            }
            // the 8-bit luma itself is the value nearest to the exactly weighted sum - under the
            // property's anchored weights (77, 150, 29)/256 or under the exact BT.601 weights, with
            // the source channels scaled to 8 bits exactly or rounded first (the library's path):
            // a result that is nearest under none of these four readings is not "nearest"
            let readings = luma_readings(c);
            if !readings.iter().any(|l| (l8 as f64 - l).abs() <= 0.5 + 1e-9) {
                ctx.violation(format!("{}|luma8-not-nearest-to-weighted-sum", pair()), case, || {
                    format!("luma8 {} ; weighted sums: anchored weights/rounded channels {:.4}, anchored/exact channels {:.4}, BT.601/rounded {:.4}, BT.601/exact {:.4}", l8, readings[0], readings[1], readings[2], readings[3])
                });
            }
            // gray input (r=g=b at full scale) is reproduced
            // (only where the conversion is a single rounding step: 8-bit source channels or 8-bit gray target)
            if sc[0] == sc[1] && sc[1] == sc[2] && sm[0] == sm[1] && sm[1] == sm[2] && (sm[0] == 255 || tm[0] == 255) {
                if !nearest(sc[0], tc[0], sm[0], tm[0]) {
                    ctx.violation(format!("{}|gray-input-not-reproduced", pair()), case, || format!("-> {:?}", t));
                }
            }
            if thorough_neighbours {
                for k in 0..3 {
                    if sc[k] < sm[k] {
                        let mut up = sc;
                        up[k] += 1;
                        let tu = T::from(S::make(up)).ch();
                        if tu[0] < tc[0] {
                            ctx.violation(format!("{}|not-monotone", pair()), case, || format!("{:?} -> {} but one step up in channel {} -> {}", sc, tc[0], k, tu[0]));
                        }
                    }
                }
            }
        }
        (Kind::Gray, Kind::Bin) => {
            // On exactly for the upper half of the luma range
            let on = sc[0] * 2 > sm[0];
            if (tc[0] == 1) != on {
                ctx.violation(format!("{}|binary-threshold", pair()), case, || format!("luma {} of {} -> {:?}", sc[0], sm[0], t));
            }
        }
        (Kind::Rgb, Kind::Bin) => {
            let l8: Gray8 = c.into();
            let on = l8.luma() >= 128;
            if (tc[0] == 1) != on {
                ctx.violation(format!("{}|binary-threshold", pair()), case, || format!("luma8 {} -> {:?}", l8.luma(), t));
            }
        }
        (Kind::Bin, _) => {
            // Off -> black, On -> white (covered by the extremes), and back
            let back = S::from(t);
            if back != c {
                ctx.violation(format!("{}|binary-roundtrip", pair()), case, || format!("-> {:?} -> {:?}", t, back));
            }
        }
    }
    // Gray -> RGB -> Gray is the identity when every RGB channel is at least as wide
    if S::KIND == Kind::Gray && T::KIND == Kind::Rgb && (0..3).all(|k| T::BITS[k] >= S::BITS[0]) {
        let back = S::from(t);
        if back != c {
            ctx.violation(format!("{}|gray-rgb-gray", pair()), case, || format!("-> {:?} -> {:?}", t, back));
        }
    }
}

const CHUNK: u64 = 2048;

fn pair<S, T>(run: &Run)
where
    S: CI + From<T> + Into<Gray8>,
    T: CI + From<S>,
{
    if S::NAME == T::NAME {
        return;
    }
    let n = S::count();
    let full = n <= (1 << 18) || !run.quick();
    let gen: &'static str = Box::leak(format!("{}->{}", S::NAME, T::NAME).into_boxed_str());
    let salt = egmon::rng::hash_str(gen);
    // sources as images and framebuffers obtain them: made from raw data whose bits beyond the
    // channels (padding of Rgb444/555/666, upper storage bits) are arbitrary
    {
        let gen: &'static str = Box::leak(format!("{}->{}-sources-from-raw-data", S::NAME, T::NAME).into_boxed_str());
        run.generate(gen, 4, false, 0.2, |ctx, idx, rng| {
            for j in 0..512u32 {
                let v = match (idx, j % 4) {
                    (0, _) => rng.next_u32() | 0xFFFC_0000 | if S::BITS[0] < 6 { 0xF000 } else { 0 },
                    (_, 0) => rng.next_u32(),
                    (_, 1) => rng.next_u32() | 0x00FC_0000,
                    (_, 2) => rng.next_u32() | 0x8000,
                    _ => rng.next_u32() | 0xF000,
                };
                let c = S::from_raw(v);
                check_value::<S, T>(ctx, c, false);
                if c != S::make(c.ch()) {
                    ctx.count("sources_from_raw_data_that_differ_from_the_colour_of_their_channels", 1);
                }
                ctx.nontrivial(mix(salt ^ 0x5A5A, v as u64));
            }
            ctx.count("sources_from_raw_data", 512);
        });
    }
    if full {
        let chunks = (n + CHUNK - 1) / CHUNK;
        run.generate(gen, chunks, true, 0.2, |ctx, idx, _| {
            let lo = idx * CHUNK;
            let hi = (lo + CHUNK).min(n);
            if ctx.wants_sample() {
                let c = S::nth(lo);
                ctx.sample(|| jobj! {"pair" => gen, "source" => format!("{:?}", c), "result" => format!("{:?}", T::from(c))});
            }
            let mut nt = 0u64;
            for i in lo..hi {
                let c = S::nth(i);
                check_value::<S, T>(ctx, c, n <= (1 << 18));
                let ch = c.ch();
                if ch != [0, 0, 0] && ch != S::max() {
                    nt += 1;
                }
            }
            ctx.run.add_nontrivial_counted(nt);
            ctx.count("conversions_enumerated", hi - lo);
        });
    } else {
        // quick tier, 24-bit sources: per-channel exhaustive with neighbours + random
        run.generate(gen, 3 * 256 + 256 + 256, false, 0.2, |ctx, idx, rng| {
            if idx >= 1024 {
                // every nearly neutral colour: g = idx - 1024, r and b within 3 steps of g
                let g = (idx - 1024) as i64;
                for dr in -3i64..=3 {
                    for db in -3i64..=3 {
                        let ch = [(g + dr).clamp(0, 255) as u32, g as u32, (g + db).clamp(0, 255) as u32];
                        check_value::<S, T>(ctx, S::make(ch), true);
                        ctx.nontrivial(mix(salt, ((ch[0] as u64) << 16) | ((ch[1] as u64) << 8) | ch[2] as u64));
                    }
                }
                ctx.count("conversions_near_neutral", 49);
            } else if idx < 768 {
                let (k, v) = ((idx / 256) as usize, (idx % 256) as u32);
                for other in [0u32, 255, 128, 127, 1, 254, 85, 170] {
                    let mut ch = [other; 3];
                    ch[k] = v;
                    let c = S::make(ch);
                    check_value::<S, T>(ctx, c, true);
                    ctx.nontrivial(mix(salt, ((ch[0] as u64) << 16) | ((ch[1] as u64) << 8) | ch[2] as u64));
                }
            } else {
                for j in 0..2048 {
                    // every second sample sits on or next to the BT.601 luma midpoint
                    // (77r + 150g + 29b = 32640), where rounding ties of the binary threshold live
                    let i = if j % 2 == 1 && S::KIND == Kind::Rgb && S::BITS == [8, 8, 8] {
                        let (r, b) = (rng.below(256) as i64, rng.below(256) as i64);
                        let g = ((32640 - 77 * r - 29 * b) as f64 / 150.0).round() as i64 + rng.below(3) as i64 - 1;
                        let c = S::make([r as u32, g.clamp(0, 255) as u32, b as u32]);
                        check_value::<S, T>(ctx, c, false);
                        let ch = c.ch();
                        ctx.nontrivial(mix(salt, ((ch[0] as u64) << 16) | ((ch[1] as u64) << 8) | ch[2] as u64));
                        ctx.count("conversions_near_luma_midpoint", 1);
                        continue;
                    } else {
                        rng.below(n)
                    };
                    let c = S::nth(i);
                    check_value::<S, T>(ctx, c, false);
                    ctx.nontrivial(mix(salt, i));
                }
                ctx.count("conversions_random", 2048);
            }
        });
    }
}

macro_rules! all_pairs {
    ($run:expr; $($t:ident),*) => { all_pairs!(@outer $run; [$($t),*]; $($t),*) };
    (@outer $run:expr; $all:tt; $($s:ident),*) => { $( all_pairs!(@inner $run; $s; $all); )* };
    (@inner $run:expr; $s:ident; [$($t:ident),*]) => { $( pair::<$s, $t>($run); )* };
}

fn main() {
    main_with("c13", "exploration", |run| {
        run.set_rule(
            "Every ordered pair of the 14 built-in colour types (182 conversions) x source values: all values for sources up to 18 used bits (always) and for the two 24-bit sources in the thorough tier; \
             quick tier for 24-bit sources: each channel 0..=255 against 8 settings of the other channels, every nearly neutral colour (r and b within 3 steps of g), colours on and next to the luma midpoint, plus random values. Non-trivial = source neither black nor white; distinct = distinct (pair, source value).",
        );
        run.assume("nearest-value oracle: |out*FROM_MAX - in*TO_MAX|*2 <= FROM_MAX per channel (exact integers)");
        run.assume("RGB->Gray/Binary: the 8-bit luma (the library's RGB->Gray8 result) must be the value nearest to the exactly weighted channel sum under at least one of four readings (the property's anchored weights 77/150/29 over 256 or exact BT.601 weights; source channels scaled to 8 bits exactly or rounded first); lower gray depths and the binary threshold are derived from that luma; monotone, gray-reproducing");
        all_pairs!(run; Rgb332, Rgb444, Rgb555, Bgr555, Rgb565, Bgr565, Rgb666, Bgr666, Rgb888, Bgr888, Gray2, Gray4, Gray8, BinaryColor);
    })
}
