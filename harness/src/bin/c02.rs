//! C02 — bounding boxes contain everything that is drawn.
//! Event-log invariant over the touched points of real draw() runs on unbounded targets.
use egmon::{
    jobj, main_with,
    target::{unbounded_box, IterTarget, NativeTarget},
    zoo::{self, DecoD, Desc, Dr, FontD, GenCfg, LhD, Prim, StyleD, TextD, Visitor, ZCol},
    Ctx, Run,
};
use embedded_graphics::{pixelcolor::*, prelude::*};

struct V<'c, 'r> {
    ctx: &'c mut Ctx<'r>,
}

impl<'c, 'r, C: ZCol> Visitor<C> for V<'c, 'r> {
    type Out = ();
    fn visit<D: Dr<C>>(&mut self, d: &D, desc: &Desc) {
        let ctx = &mut *self.ctx;
        ctx.eval();
        let kind = desc.kind();
        let bb = d.bbox();
        let case = || desc.text();
        let budget = (bb.size.width as u64 + 300) * (bb.size.height as u64 + 300) * 8 + 4096 + desc.overlap_allowance();
        let mut a = IterTarget::<C>::new(unbounded_box());
        let mut b = NativeTarget::<C>::new(unbounded_box());
        a.log.budget = budget;
        b.log.budget = budget;
        let _ = d.draw_on(&mut a);
        let _ = d.draw_on(&mut b);
        if a.log.over_budget || b.log.over_budget {
            ctx.violation(format!("{}|draw-exceeds-step-budget", kind), case, || format!("more than {} items", budget));
            return;
        }
        let transparent = d.transparent();
        for (tk, log) in [("draw_iter-only", &a.log), ("native", &b.log)] {
            if transparent && !log.map.is_empty() {
                ctx.violation(format!("{}|transparent-style-draws", kind), case, || format!("{} target: {} pixels drawn with a completely transparent style", tk, log.map.len()));
            }
            // every touched point lies inside bounding_box()
            let mut outside: Vec<(i32, i32)> = log.map.px.keys().filter(|&&(x, y)| !bb.contains(Point::new(x, y))).copied().collect();
            if !outside.is_empty() {
                outside.sort_by_key(|&(x, y)| (y, x));
                let (l, t, r, bt) = (
                    outside.iter().any(|p| p.0 < bb.top_left.x),
                    outside.iter().any(|p| p.1 < bb.top_left.y),
                    outside.iter().any(|p| p.0 as i64 >= bb.top_left.x as i64 + bb.size.width as i64),
                    outside.iter().any(|p| p.1 as i64 >= bb.top_left.y as i64 + bb.size.height as i64),
                );
                let side = format!("{}{}{}{}", if l { "L" } else { "" }, if t { "T" } else { "" }, if r { "R" } else { "" }, if bt { "B" } else { "" });
                let sig = match desc {
                    Desc::Text(t) => {
                        if matches!(t.font, FontD::Custom(_)) {
                            // the statement quantifies over the built-in fonts; custom fonts are
                            // recorded as an observation only (DESIGN section 3)
                            ctx.count("observation_custom_font_text_with_pixels_outside_bounding_box", 1);
                            continue;
                        }
                        let under = t.underline != DecoD::None;
                        format!("text|pixels-outside-bounding-box|side={}|underline={}", side, under)
                    }
                    Desc::Styled(Prim::Polyline { pts, tr }, st) => {
                        // verified cause predicate: thick polyline whose only pixels outside the box
                        // are an end vertex (first or last), exactly one pixel outside the box
                        let ends: Vec<(i32, i32)> = [pts.first(), pts.last()].iter().flatten().map(|p| (p.0 + tr.0, p.1 + tr.1)).collect();
                        let cheb = |p: &(i32, i32)| {
                            let dx = (bb.top_left.x as i64 - p.0 as i64).max(p.0 as i64 - (bb.top_left.x as i64 + bb.size.width as i64 - 1)).max(0);
                            let dy = (bb.top_left.y as i64 - p.1 as i64).max(p.1 as i64 - (bb.top_left.y as i64 + bb.size.height as i64 - 1)).max(0);
                            dx.max(dy)
                        };
                        if st.width >= 2 && outside.len() == 1 && ends.contains(&outside[0]) && cheb(&outside[0]) == 1 {
                            "polyline|thick|end-vertex-pixel-1px-outside-bounding-box".to_string()
                        } else {
                            format!("{}|pixels-outside-bounding-box|side={}|unclassified|{:016x}", kind, side, desc.hash())
                        }
                    }
                    _ => format!("{}|pixels-outside-bounding-box|side={}", kind, side),
                };
                ctx.violation(sig, case, || format!("{} target: {} of {} drawn pixels are outside bounding_box() {:?}; first {:?}", tk, outside.len(), log.map.len(), bb, &outside[..outside.len().min(6)]));
            }
        }
        ctx.count("pixels_checked", (a.log.map.len() + b.log.map.len()) as u64);
        if transparent {
            ctx.count("transparent_drawables", 1);
        }
        if !a.log.map.is_empty() {
            ctx.nontrivial(desc.hash() ^ egmon::rng::hash_str(C::name()));
            ctx.distinct("pixel_maps", a.log.map.hash());
        }
        if ctx.wants_sample() {
            ctx.sample(|| jobj! {"drawable" => desc.text(), "bounding_box" => format!("{:?}", bb), "pixels" => a.log.map.len() as u64});
        }
    }
}

fn visit_as<C: ZCol>(ctx: &mut Ctx, d: &Desc) {
    let mut v = V { ctx };
    d.visit::<C, _>(&mut v);
}

fn main() {
    main_with("c02", "exploration", |run: &Run| {
        run.set_rule(
            "Every drawable of the zoo is drawn on an unbounded draw_iter-only target and an unbounded native target; every touched point must be inside bounding_box(), transparent styles must touch nothing. \
             Generators: random styled primitives (all 9 kinds; small, medium); thick triangles/polylines/lines with random vertices +-64 and widths 1..=12 in all alignments; closed shapes with strokes wider than the shape; images/sub-images; \
             text over EVERY built-in font of the working tree x {text, background, underline, strikethrough} x 4 baselines x 3 alignments x line heights x multi-line strings (sampled per font), plus custom fonts. \
             Non-trivial = at least one pixel drawn; distinct = distinct (drawable description, colour type).",
        );
        let n_small = run.tier(150_000u64, 10_000_000u64);
        run.generate("random-styled-small", n_small, false, 0.15, |ctx, _idx, rng| {
            let d = if rng.chance(1, 10) { zoo::gen_dotted_rect(rng) } else { zoo::gen_styled(rng, &GenCfg::SMALL_DOTTED, None) };
            visit_as::<Rgb565>(ctx, &d);
        });
        let n_thick = run.tier(150_000u64, 20_000_000u64);
        // polylines whose public `vertices` field is assigned after construction (a value cached by
        // `Polyline::new` would be stale): bounding boxes, the translated box, and draw() against pixels()
        // must be those of a freshly constructed polyline (seeded `C02-18`, `C07-18`, `C01-18`)
        let n_pv = run.tier(30_000u64, 3_000_000u64);
        run.generate("polyline-vertices-assigned", n_pv, false, 0.1, |ctx, _idx, rng| {
            use embedded_graphics::primitives::{Polyline, PrimitiveStyle};
            let pts = |rng: &mut egmon::Rng, spread: i32| -> Vec<Point> { (0..rng.usizer(2, 6)).map(|_| Point::new(rng.i32r(-spread, spread), rng.i32r(-spread, spread))).collect() };
            let a = pts(rng, 8);
            let b = pts(rng, 40);
            let w = rng.u32r(1, 5);
            let d = Point::new(rng.i32r(-30, 30), rng.i32r(-30, 30));
            let style = PrimitiveStyle::with_stroke(Rgb565::new(3, 5, 7), w);
            ctx.eval();
            let fresh = Polyline::new(&b);
            let mut assigned = Polyline::new(&a);
            if rng.chance(1, 2) {
                assigned.translate_mut(d);
                assigned.translate_mut(Point::zero() - d);
            }
            assigned.vertices = &b;
            let case = || format!("Polyline::new({:?}) with `vertices` assigned {:?} afterwards, stroke width {}, offset {:?}", a, b, w, d);
            let render = |p: &Polyline| {
                let mut t = IterTarget::<Rgb565>::new(unbounded_box());
                t.log.budget = 4_000_000;
                let _ = p.into_styled(style).draw(&mut t);
                t.log.map
            };
            let (mf, ma) = (render(&fresh), render(&assigned));
            let mut px = IterTarget::<Rgb565>::new(unbounded_box());
            px.log.budget = 4_000_000;
            let _ = px.draw_iter(assigned.into_styled(style).pixels());
            let sb = assigned.into_styled(style).bounding_box();
            let outside = ma.px.keys().filter(|(x, y)| !sb.contains(Point::new(*x, *y))).count();
            let what = if outside > 0 {
                Some(("pixels-outside-bounding-box", format!("{} drawn points outside {:?}", outside, sb)))
            } else if assigned.bounding_box() != fresh.bounding_box() || sb != fresh.into_styled(style).bounding_box() {
                Some(("bounding-box-differs-from-fresh", format!("{:?} / {:?} instead of {:?} / {:?}", assigned.bounding_box(), sb, fresh.bounding_box(), fresh.into_styled(style).bounding_box())))
            } else if !ma.same(&mf) || !px.log.map.same(&mf) {
                Some(("draw-or-pixels-differ-from-fresh", format!("draw differs at {:?}, pixels() at {:?}", ma.first_diff(&mf), px.log.map.first_diff(&mf))))
            } else if assigned.translate(d).bounding_box() != fresh.translate(d).bounding_box() || {
                let mut m = assigned;
                m.translate_mut(d);
                m.bounding_box() != fresh.translate(d).bounding_box() || !render(&m).same(&mf.shifted(d.x, d.y))
            } {
                Some(("translated-differs-from-fresh", "translate/translate_mut of the assigned polyline".to_string()))
            } else {
                None
            };
            if let Some((k, detail)) = what {
                ctx.violation(format!("polyline|vertices-assigned|{}", k), case, || detail.clone());
            }
            if !mf.is_empty() {
                ctx.nontrivial(egmon::rng::mix(egmon::rng::hash_str(&format!("{:?}{:?}", a, b)), w as u64));
            }
            ctx.count("polylines_with_vertices_assigned_after_construction", 1);
        });
        run.generate("thick-joins", n_thick, false, 0.25, |ctx, idx, rng| {
            let v = |rng: &mut egmon::Rng| (rng.i32r(-64, 64), rng.i32r(-64, 64));
            let p = match idx % 3 {
                0 => Prim::Tri { p: [v(rng), v(rng), v(rng)] },
                1 => Prim::Line { a: v(rng), b: v(rng) },
                _ => {
                    let n = rng.usizer(2, 6);
                    Prim::Polyline { pts: (0..n).map(|_| v(rng)).collect(), tr: if rng.chance(1, 2) { (0, 0) } else { v(rng) } }
                }
            };
            let st = StyleD { fill: if rng.chance(1, 3) { Some(1) } else { None }, stroke: Some(2), width: rng.u32r(1, 12), align: rng.below(3) as u8, dotted: false };
            visit_as::<Rgb565>(ctx, &Desc::Styled(p, st));
        });
        let n_med = run.tier(10_000u64, 300_000u64);
        run.generate("random-styled-medium", n_med, false, 0.15, |ctx, _idx, rng| {
            let d = zoo::gen_styled(rng, &GenCfg { pos: 100, size: 120, max_width: 40, dotted: false }, None);
            visit_as::<BinaryColor>(ctx, &d);
        });
        let n_img = run.tier(20_000u64, 300_000u64);
        run.generate("images", n_img, false, 0.1, |ctx, idx, rng| match idx % 3 {
            0 => visit_as::<BinaryColor>(ctx, &zoo::gen_image::<BinaryColor>(rng, 12, 7)),
            1 => visit_as::<Gray4>(ctx, &zoo::gen_image::<Gray4>(rng, 9, 5)),
            _ => visit_as::<Rgb888>(ctx, &zoo::gen_image::<Rgb888>(rng, 9, 5)),
        });
        // text: every built-in font, sampled style product per font
        let nf = egmon::fonts::FONTS.len() as u64;
        run.extra("built_in_fonts", egmon::J::UInt(nf));
        let per_font = run.tier(80u64, 3000u64);
        run.generate("text-every-built-in-font", nf * per_font, false, 0.5, |ctx, idx, rng| {
            let fi = (idx % nf) as usize;
            let k = idx / nf;
            // the first combinations per font are fixed (decorations on, each baseline), the rest random
            let text = zoo::STRINGS[(k % zoo::STRINGS.len() as u64) as usize].to_string();
            let mut t = zoo::gen_text_style(rng, FontD::Builtin(fi), text);
            if k < 12 {
                t.text_color = Some(1);
                t.bg = if k % 2 == 0 { Some(4) } else { None };
                t.underline = [DecoD::TextColor, DecoD::Custom(7), DecoD::None][(k % 3) as usize];
                t.strike = [DecoD::None, DecoD::TextColor][(k / 6 % 2) as usize];
                t.baseline = (k % 4) as u8;
                t.align = (k / 4 % 3) as u8;
                t.lh = LhD::Percent(100);
                t.text = ["Ag", "a\nbc", "Hello, World!"][(k % 3) as usize].to_string();
            } else if rng.chance(1, 3) {
                t.text = zoo::gen_string(rng);
            }
            if ctx.wants_sample() || k == 0 {
                ctx.count("fonts_visited", 1);
            }
            visit_as::<Rgb565>(ctx, &Desc::Text(t));
        });
        let n_custom = run.tier(20_000u64, 500_000u64);
        run.generate("text-custom-fonts", n_custom, false, 0.5, |ctx, _idx, rng| {
            let d = zoo::gen_text(rng, (1, 1));
            visit_as::<BinaryColor>(ctx, &d);
        });
    })
}
