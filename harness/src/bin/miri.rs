//! Supplementary Miri stage (thorough tier of C08/C10/C11): a reduced buffer-indexing workload that
//! is meant to be interpreted by `cargo +nightly miri run --bin miri`. Today the library contains
//! no `unsafe` code, so Miri can only confirm that; the stage exists so that a future `unsafe`
//! fast path in load/store/Framebuffer/ImageRaw is caught as UB even where it returns a plausible
//! value. Deliberately free of threads, clocks and file access (Miri isolation).
use embedded_graphics::{
    framebuffer::Framebuffer,
    image::{GetPixel, Image, ImageDrawableExt, ImageRaw},
    iterator::raw::RawDataSlice,
    pixelcolor::{
        raw::{BigEndianLsb0, LittleEndianMsb0, RawData, RawU1, RawU16, RawU2, RawU24, RawU32, RawU4, RawU8},
        *,
    },
    prelude::*,
    primitives::{Circle, PrimitiveStyle, Rectangle},
    Pixel,
};

struct Tiny {
    cells: [u32; 64],
    n: u32,
}
impl Dimensions for Tiny {
    fn bounding_box(&self) -> Rectangle {
        Rectangle::new(Point::zero(), Size::new(8, 8))
    }
}
impl DrawTarget for Tiny {
    type Color = BinaryColor;
    type Error = core::convert::Infallible;
    fn draw_iter<I: IntoIterator<Item = Pixel<BinaryColor>>>(&mut self, pixels: I) -> Result<(), Self::Error> {
        for Pixel(p, c) in pixels {
            self.n += 1;
            if p.x >= 0 && p.y >= 0 && p.x < 8 && p.y < 8 {
                self.cells[(p.y * 8 + p.x) as usize] = c.is_on() as u32;
            }
        }
        Ok(())
    }
}

const POINTS: [(i32, i32); 14] = [(0, 0), (1, 0), (4, 2), (12, 6), (13, 6), (12, 7), (-1, 0), (0, -1), (13, 0), (0, 7), (i32::MIN, 0), (0, i32::MAX), (i32::MAX, i32::MAX), (6, 5)];
const INDICES: [usize; 14] = [0, 1, 7, 8, 9, 15, 16, 63, 64, usize::MAX / 3 + 1, usize::MAX / 3 * 2 + 2, usize::MAX / 2 + 1, usize::MAX - 1, usize::MAX];

fn main() {
    let mut ops = 0u64;
    // --- raw load/store/iteration
    macro_rules! ls {
        ($r:ty) => {{
            for &i in &INDICES {
                let mut buf = [0xA5u8; 8];
                let v = <$r>::from_u32(0x1234_5678);
                let ok_le = v.store::<LittleEndianMsb0>(&mut buf, i).is_ok();
                assert_eq!(<$r>::load::<LittleEndianMsb0>(&buf, i).is_some(), ok_le);
                if ok_le {
                    assert!(<$r>::load::<LittleEndianMsb0>(&buf, i) == Some(v));
                }
                let ok_be = v.store::<BigEndianLsb0>(&mut buf, i).is_ok();
                if ok_be {
                    assert!(<$r>::load::<BigEndianLsb0>(&buf, i) == Some(v));
                }
                let mut it = RawDataSlice::<$r, BigEndianLsb0>::new(&buf).into_iter();
                let _ = it.nth(i);
                let _ = it.size_hint();
                let _ = it.next();
                ops += 8;
            }
            let buf = [0x3Cu8; 5];
            let n = RawDataSlice::<$r, LittleEndianMsb0>::new(&buf).into_iter().count();
            assert_eq!(n, 5 * 8 / <$r>::BITS_PER_PIXEL);
            ops += 1;
        }};
    }
    ls!(RawU1);
    ls!(RawU2);
    ls!(RawU4);
    ls!(RawU8);
    ls!(RawU16);
    ls!(RawU24);
    ls!(RawU32);
    // --- framebuffers: in/out-of-range writes and reads, oversized buffers, drawing
    macro_rules! fb {
        ($c:ty, $raw:ty, $o:ty, $col:expr, $extra:expr) => {{
            const N: usize = ((13 * <$raw>::BITS_PER_PIXEL + 7) / 8) * 7 + $extra;
            let mut fb = Framebuffer::<$c, $raw, $o, 13, 7, N>::new();
            for (k, &(x, y)) in POINTS.iter().enumerate() {
                let p = Point::new(x, y);
                fb.set_pixel(p, $col);
                let inside = x >= 0 && y >= 0 && x < 13 && y < 7;
                assert_eq!(fb.pixel(p).is_some(), inside);
                if inside {
                    assert!(fb.pixel(p) == Some($col));
                }
                let _ = fb.draw_iter([Pixel(p, $col)]);
                if k % 4 == 0 {
                    let _ = fb.fill_solid(&Rectangle::new(Point::new(x.clamp(-20, 20), y.clamp(-20, 20)), Size::new(3, 2)), $col);
                }
                ops += 4;
            }
            let _ = Circle::new(Point::new(-2, -2), 9).into_styled(PrimitiveStyle::with_stroke($col, 2)).draw(&mut fb);
            let img = fb.as_image();
            assert!(img.pixel(Point::new(12, 6)).is_some());
            assert!(img.pixel(Point::new(13, 6)).is_none());
            ops += 3;
        }};
    }
    fb!(BinaryColor, RawU1, LittleEndianMsb0, BinaryColor::On, 0);
    fb!(BinaryColor, RawU1, BigEndianLsb0, BinaryColor::On, 3);
    fb!(Gray2, RawU2, BigEndianLsb0, Gray2::WHITE, 0);
    fb!(Gray4, RawU4, LittleEndianMsb0, Gray4::WHITE, 3);
    fb!(Gray8, RawU8, LittleEndianMsb0, Gray8::WHITE, 10);
    fb!(Rgb565, RawU16, BigEndianLsb0, Rgb565::WHITE, 0);
    fb!(Rgb888, RawU24, LittleEndianMsb0, Rgb888::WHITE, 3);
    // portrait shapes
    macro_rules! fbp {
        ($c:ty, $raw:ty, $o:ty, $col:expr) => {{
            const N: usize = ((3 * <$raw>::BITS_PER_PIXEL + 7) / 8) * 11;
            let mut fb = Framebuffer::<$c, $raw, $o, 3, 11, N>::new();
            for y in -1..13 {
                for x in -1..5 {
                    let p = Point::new(x, y);
                    fb.set_pixel(p, $col);
                    let inside = x >= 0 && y >= 0 && x < 3 && y < 11;
                    assert_eq!(fb.pixel(p).is_some(), inside);
                    assert_eq!(fb.as_image().pixel(p).is_some(), inside);
                    ops += 3;
                }
            }
        }};
    }
    fbp!(BinaryColor, RawU1, BigEndianLsb0, BinaryColor::On);
    fbp!(Gray4, RawU4, LittleEndianMsb0, Gray4::WHITE);
    fbp!(Rgb565, RawU16, LittleEndianMsb0, Rgb565::WHITE);
    // --- raw images and sub-images
    let data = [0b1010_0110u8, 0b0101_1000, 0xFF, 0x00, 0x81, 0x7E, 0x18, 0x24];
    let raw = ImageRaw::<BinaryColor>::new(&data, Size::new(11, 4)).unwrap();
    assert!(ImageRaw::<BinaryColor>::new(&data[..7], Size::new(11, 4)).is_err());
    for &(x, y) in &POINTS {
        let inside = x >= 0 && y >= 0 && x < 11 && y < 4;
        assert_eq!(raw.pixel(Point::new(x, y)).is_some(), inside);
        ops += 1;
    }
    let mut t = Tiny { cells: [0; 64], n: 0 };
    for a in [Rectangle::new(Point::new(1, 1), Size::new(3, 2)), Rectangle::new(Point::new(-2, -1), Size::new(20, 9)), Rectangle::new(Point::new(9, 3), Size::new(5, 5)), Rectangle::new(Point::new(4, 2), Size::new(0, 3)), Rectangle::new(Point::new(40, 2), Size::new(2, 2))] {
        let s = raw.sub_image(&a);
        let s2 = s.sub_image(&Rectangle::new(Point::new(1, 0), Size::new(2, 2)));
        Image::new(&s, Point::new(2, 1)).draw(&mut t).unwrap();
        Image::new(&s2, Point::new(-1, 3)).draw(&mut t).unwrap();
        Image::with_center(&raw, Point::new(4, 4)).draw(&mut t).unwrap();
        ops += 3;
    }
    let raw16 = ImageRaw::<Rgb565, BigEndianLsb0>::new(&data, Size::new(2, 2)).unwrap();
    assert!(raw16.pixel(Point::new(1, 1)).is_some() && raw16.pixel(Point::new(2, 1)).is_none());
    ops += 2;
    println!("MIRI-STAGE ok ops={} pixels_drawn={} checksum={}", ops, t.n, t.cells.iter().sum::<u32>());
}
