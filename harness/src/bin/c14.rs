//! C14 — text draws the glyph the font's mapping designates, in the right cell.
//! Reference model of glyph placement: atlas cell designated by the mapping, read with
//! font.image.pixel(), compared with the recorded pixel map of Text::draw.
use egmon::{
    fonts::FONTS,
    jobj, main_with,
    target::{unbounded_box, Col, IterTarget, NativeTarget, PixMap},
    zoo::{self, CustomFontD, DecoD, FontD, LhD, TextD},
    Ctx, Rng, Run,
};
use embedded_graphics::{
    image::GetPixel,
    mono_font::{mapping, mapping::StrGlyphMapping, MonoFont},
    pixelcolor::*,
    prelude::*,
};

type C = Rgb565;

fn builtin_mapping(module: &str) -> &'static StrGlyphMapping<'static> {
    match module {
        "ascii" => &mapping::ASCII,
        "iso_8859_1" => &mapping::ISO_8859_1,
        "iso_8859_2" => &mapping::ISO_8859_2,
        "iso_8859_3" => &mapping::ISO_8859_3,
        "iso_8859_4" => &mapping::ISO_8859_4,
        "iso_8859_5" => &mapping::ISO_8859_5,
        "iso_8859_7" => &mapping::ISO_8859_7,
        "iso_8859_9" => &mapping::ISO_8859_9,
        "iso_8859_10" => &mapping::ISO_8859_10,
        "iso_8859_13" => &mapping::ISO_8859_13,
        "iso_8859_14" => &mapping::ISO_8859_14,
        "iso_8859_15" => &mapping::ISO_8859_15,
        "iso_8859_16" => &mapping::ISO_8859_16,
        "jis_x0201" => &mapping::JIS_X0201,
        other => panic!("no mapping known for font module {}", other),
    }
}

/// is pixel (x, y) of the cell with glyph index `idx` on?  None = cell outside the atlas
fn cell_pixel(font: &MonoFont<'_>, idx: usize, x: u32, y: u32) -> Option<bool> {
    let cw = font.character_size.width;
    let ch = font.character_size.height;
    let iw = font.image.size().width;
    if cw == 0 || iw < cw {
        return None;
    }
    let per_row = iw / cw;
    let (col, row) = (idx as u32 % per_row, idx as u32 / per_row);
    font.image.pixel(Point::new((col * cw + x) as i32, (row * ch + y) as i32)).map(|c| c == BinaryColor::On)
}

/// model of one line of text at `t.at` with Baseline::Top and left alignment
/// `index_of(c)` is the glyph index the mapping designates (replacement for unmapped characters).
/// Returns (expected map, points without verdict)
fn model_line(font: &MonoFont<'_>, t: &TextD, index_of: &dyn Fn(char) -> usize) -> (PixMap, Vec<(i32, i32)>) {
    let mut m = PixMap::new();
    let mut no_verdict = Vec::new();
    let (cw, ch, sp) = (font.character_size.width as i32, font.character_size.height as i32, font.character_spacing as i32);
    let text_c = t.text_color.map(|c| C::nth(c).to_u32());
    let bg_c = t.bg.map(|c| C::nth(c).to_u32());
    let n = t.text.chars().count() as i32;
    let (px, py) = t.at;
    for (i, c) in t.text.chars().enumerate() {
        let i = i as i32;
        let idx = index_of(c);
        let x0 = px + i * (cw + sp);
        for y in 0..ch {
            for x in 0..cw {
                match cell_pixel(font, idx, x as u32, y as u32) {
                    Some(true) => {
                        if let Some(tc) = text_c {
                            m.set(x0 + x, py + y, tc);
                        }
                    }
                    Some(false) => {
                        if let Some(bc) = bg_c {
                            m.set(x0 + x, py + y, bc);
                        }
                    }
                    None => no_verdict.push((x0 + x, py + y)),
                }
            }
            // spacing after every character but the last gets the background colour
            if i < n - 1 {
                for x in cw..cw + sp {
                    if let Some(bc) = bg_c {
                        m.set(x0 + x, py + y, bc);
                    }
                }
            }
        }
    }
    // decorations cover the full text width at the font's decoration offsets
    let width = (n * (cw + sp) - sp).max(0);
    if n > 0 && width > 0 {
        let deco = |d: DecoD| match d {
            DecoD::None => None,
            DecoD::TextColor => text_c,
            DecoD::Custom(c) => Some(C::nth(c).to_u32()),
        };
        for (d, dim) in [(t.strike, font.strikethrough), (t.underline, font.underline)] {
            if let Some(col) = deco(d) {
                for y in dim.offset as i32..(dim.offset + dim.height) as i32 {
                    for x in 0..width {
                        m.set(px + x, py + y, col);
                    }
                    // a completely transparent text style draws its decorations one spacing wider
                    // (recorded finding of C15); the statement only requires that the full text
                    // width is covered, so these points carry no verdict
                    if text_c.is_none() && bg_c.is_none() {
                        for x in width..width + sp {
                            no_verdict.push((px + x, py + y));
                        }
                    }
                }
            }
        }
    }
    (m, no_verdict)
}

fn draw_text(t: &TextD, font: &MonoFont<'_>, native: bool) -> PixMap {
    draw_text_on(t, font, native, unbounded_box())
}

fn draw_text_on(t: &TextD, font: &MonoFont<'_>, native: bool, bx: embedded_graphics::primitives::Rectangle) -> PixMap {
    t.with_text::<C, _>(font, |text| {
        if native {
            let mut tg = NativeTarget::<C>::new(bx);
            let _ = text.draw(&mut tg);
            return tg.log.map;
        }
        let mut tg = IterTarget::<C>::new(bx);
        let _ = text.draw(&mut tg);
        tg.log.map
    })
}

fn check_line(ctx: &mut Ctx, t: &TextD, font: &MonoFont<'_>, font_name: &str, index_of: &dyn Fn(char) -> usize, class: &str) {
    check_line_drawn_as(ctx, t, t, font, font_name, index_of, class)
}

/// `t` describes the line content the model is built from, `drawn` is the text handed to the library
/// (the same content, possibly followed by a line ending)
fn check_line_drawn_as(ctx: &mut Ctx, t: &TextD, drawn: &TextD, font: &MonoFont<'_>, font_name: &str, index_of: &dyn Fn(char) -> usize, class: &str) {
    ctx.eval();
    let (want, no_verdict) = model_line(font, t, index_of);
    for native in [false, true] {
        let mut got = draw_text(drawn, font, native);
        let mut want = want.clone();
        for p in &no_verdict {
            got.px.remove(p);
            want.px.remove(p);
        }
        if !got.same(&want) {
            let d = got.first_diff(&want);
            // which character cell is affected?
            let cwsp = (font.character_size.width + font.character_spacing) as i32;
            let cell = d.map(|(x, _, _, _)| if cwsp > 0 { (x - t.at.0).div_euclid(cwsp) } else { 0 });
            let ch = cell.and_then(|i| t.text.chars().nth(i.max(0) as usize));
            let kind = match d {
                Some((_, y, _, _)) if (y - t.at.1) >= font.character_size.height as i32 => "decoration-row",
                Some((_, _, None, Some(_))) => "pixel-missing",
                Some((_, _, Some(_), None)) => "extra-pixel",
                _ => "wrong-colour",
            };
            ctx.violation(format!("{}|{}|{}", class, kind, if native { "native" } else { "draw_iter-only" }), || format!("{} font {}", zoo::Desc::Text(t.clone()).text(), font_name), || {
                format!("drawn text differs from the designated glyph cells at {:?} (x, y, drawn, expected); character cell {:?} = {:?} (glyph index {:?})\ndrawn:\n{}expected:\n{}", d, cell, ch, ch.map(|c| index_of(c)), got.ascii(70), want.ascii(70))
            });
            return;
        }
    }
    // the same line on a bounded target whose edges coincide with / cut through glyph cells: inside
    // the target exactly the designated pixels (a renderer may cull against the target's box, but
    // must not lose or move what lies inside it)
    if !want.is_empty() {
        let (mut x0, mut y0, mut x1, mut y1) = (i32::MAX, i32::MAX, i32::MIN, i32::MIN);
        for &(x, y) in want.px.keys() {
            x0 = x0.min(x);
            y0 = y0.min(y);
            x1 = x1.max(x);
            y1 = y1.max(y);
        }
        let (w, h) = ((x1 - x0 + 1) as u32, (y1 - y0 + 1) as u32);
        let hsh = want.hash();
        let k = (hsh % 4) as i32 + 1;
        let bx = match hsh / 4 % 4 {
            0 => egmon::target::rect(x0, y0, w, h),
            1 => egmon::target::rect(x0 - k, y0 - 1, w, h),
            2 => egmon::target::rect(x0 + k, y0 + 1, w, h),
            _ => egmon::target::rect(x0 + (w as i32) / 2, y0 - 2, w, h + 4),
        };
        let inside = |x: i32, y: i32| x >= bx.top_left.x && y >= bx.top_left.y && x < bx.top_left.x + bx.size.width as i32 && y < bx.top_left.y + bx.size.height as i32;
        let mut want_in = PixMap::new();
        for (&(x, y), &c) in &want.px {
            if inside(x, y) && !no_verdict.contains(&(x, y)) {
                want_in.set(x, y, c);
            }
        }
        for native in [false, true] {
            let mut got = draw_text_on(drawn, font, native, bx);
            for p in &no_verdict {
                got.px.remove(p);
            }
            ctx.count("bounded_target_draws", 1);
            if !got.same(&want_in) {
                let d = got.first_diff(&want_in);
                ctx.violation(format!("{}|bounded-target|{}", class, if native { "native" } else { "draw_iter-only" }), || format!("{} font {} on target box {:?}", zoo::Desc::Text(t.clone()).text(), font_name, egmon::target::rt(&bx)), || {
                    format!("inside the target the drawn text differs from the designated glyph cells at {:?} (x, y, drawn, expected)\ndrawn:\n{}expected:\n{}", d, got.ascii(70), want_in.ascii(70))
                });
                return;
            }
        }
    }
    ctx.count("characters_compared", t.text.chars().count() as u64);
    ctx.count("pixels_compared", want.len() as u64);
}

const STYLES: [(Option<u32>, Option<u32>, DecoD, DecoD); 8] = [
    (Some(1), None, DecoD::None, DecoD::None),
    (Some(1), Some(4), DecoD::TextColor, DecoD::Custom(8)),
    (None, Some(4), DecoD::None, DecoD::None),
    (Some(2), Some(5), DecoD::None, DecoD::None),
    (Some(1), None, DecoD::Custom(7), DecoD::None),
    (Some(1), None, DecoD::None, DecoD::TextColor),
    (None, None, DecoD::Custom(7), DecoD::Custom(8)),
    (None, Some(4), DecoD::TextColor, DecoD::TextColor),
];

fn text_of(s: String, font: FontD, style: usize, rng: &mut Rng) -> TextD {
    let st = STYLES[style % STYLES.len()];
    TextD { text: s, at: (rng.i32r(-40, 40), rng.i32r(-40, 40)), font, text_color: st.0, bg: st.1, underline: st.2, strike: st.3, baseline: 0, align: 0, lh: LhD::Percent(100) }
}

const UNMAPPED: [char; 13] = ['\r', '\u{0}', '\u{1}', '\t', '\u{1f}', '\u{80}', '\u{9f}', '\u{fffd}', '\u{1F600}', '\u{10FFFF}', '\u{2028}', '\u{E000}', '\u{3042}'];

fn main() {
    main_with("c14", "exploration", |run: &Run| {
        run.set_rule(
            "Every built-in font of the working tree (table generated at build time): data checks over every character of its mapping (own index, cell inside the atlas, unmapped characters -> replacement), and every mapped character drawn in lines of 16 plus lines of unmapped characters (controls, U+FFFD, non-BMP) under S colour/decoration combinations, on a draw_iter-only and a native target; \
             custom fonts with random atlases (1..=7 glyphs per row, slack columns), spacing 0..=3 and StrGlyphMappings with and without ranges. Non-trivial = the line has >= 2 characters; distinct = distinct (font, text, style).",
        );
        run.assume("replacement glyph of the built-in mappings = the glyph of '?'");
        let nf = FONTS.len() as u64;
        run.extra("built_in_fonts", egmon::J::UInt(nf));
        // --- data checks for every built-in font and mapping
        run.generate("font-data", nf, true, 0.2, |ctx, idx, _rng| {
            let (module, name, font) = FONTS[idx as usize];
            let map = builtin_mapping(module);
            let fname = format!("{}::{}", module, name);
            let (cw, ch) = (font.character_size.width, font.character_size.height);
            let (iw, ih) = (font.image.size().width, font.image.size().height);
            let per_row = if cw > 0 { iw / cw } else { 0 };
            let mut n = 0u64;
            for (i, c) in map.chars().enumerate() {
                ctx.eval();
                n += 1;
                let got = font.glyph_mapping.index(c);
                if got != i {
                    ctx.violation("font-data|mapped-character-has-not-its-own-index", || format!("{} character {:?} (U+{:04X})", fname, c, c as u32), || format!("index({:?}) = {}, its position in the mapping is {}", c, got, i));
                    break;
                }
                if per_row == 0 || (i as u32 % per_row + 1) * cw > iw || (i as u32 / per_row + 1) * ch > ih {
                    ctx.violation("font-data|glyph-cell-outside-font-image", || format!("{} character {:?} (U+{:04X}) index {}", fname, c, c as u32, i), || format!("cell {}x{} at column {} row {} does not fit the {}x{} image", cw, ch, i as u32 % per_row.max(1), i as u32 / per_row.max(1), iw, ih));
                    break;
                }
            }
            let q = font.glyph_mapping.index('?');
            for c in UNMAPPED {
                if !map.chars().any(|m| m == c) {
                    ctx.eval();
                    let got = font.glyph_mapping.index(c);
                    if got != q {
                        ctx.violation("font-data|unmapped-character-not-replaced", || format!("{} character U+{:04X}", fname, c as u32), || format!("index = {}, replacement glyph index = {}", got, q));
                    }
                }
            }
            ctx.count("mapped_characters_checked", n);
            ctx.nontrivial(egmon::rng::hash_str(&fname));
            if ctx.wants_sample() {
                ctx.sample(|| jobj! {"font" => fname.clone(), "cell" => format!("{}x{}", cw, ch), "image" => format!("{}x{}", iw, ih), "mapped_characters" => n});
            }
        });
        // --- every Unicode scalar value against every built-in mapping: mapped characters have
        // their own index, all 1.1 million others (in particular code points that alias a mapped
        // one when upper bits are dropped) get the replacement index
        const MODULES: [&str; 14] = ["ascii", "iso_8859_1", "iso_8859_2", "iso_8859_3", "iso_8859_4", "iso_8859_5", "iso_8859_7", "iso_8859_9", "iso_8859_10", "iso_8859_13", "iso_8859_14", "iso_8859_15", "iso_8859_16", "jis_x0201"];
        const SCALAR_CHUNK: u32 = 0x2000;
        let chunks = (0x110000 / SCALAR_CHUNK) as u64;
        run.generate("mapping-all-scalar-values", MODULES.len() as u64 * chunks, true, 0.0, |ctx, idx, _rng| {
            let module = MODULES[(idx / chunks) as usize];
            let Some(&(_, name, font)) = FONTS.iter().find(|f| f.0 == module) else { return };
            let map = builtin_mapping(module);
            let q = font.glyph_mapping.index('?');
            let lo = (idx % chunks) as u32 * SCALAR_CHUNK;
            // position of every mapped character inside this chunk (from the mapping's own enumeration)
            let mut want: Vec<usize> = vec![q; SCALAR_CHUNK as usize];
            let mut mapped_here = 0u64;
            for (i, c) in map.chars().enumerate() {
                let v = c as u32;
                if v >= lo && v < lo + SCALAR_CHUNK {
                    want[(v - lo) as usize] = i;
                    mapped_here += 1;
                }
            }
            let mut n = 0u64;
            for v in lo..lo + SCALAR_CHUNK {
                let Some(c) = char::from_u32(v) else { continue };
                n += 1;
                let got = font.glyph_mapping.index(c);
                if got != want[(v - lo) as usize] {
                    let mapped = map.chars().any(|m| m == c);
                    ctx.eval();
                    ctx.violation(
                        if mapped { "font-data|mapped-character-has-not-its-own-index" } else { "font-data|unmapped-character-not-replaced" },
                        || format!("{}::{} character U+{:04X}", module, name, v),
                        || format!("index = {}, expected {} (replacement glyph index = {})", got, want[(v - lo) as usize], q),
                    );
                    break;
                }
            }
            ctx.count("scalar_values_checked", n);
            ctx.count("scalar_values_mapped", mapped_here);
            ctx.evals(n);
            if mapped_here > 0 {
                ctx.nontrivial(egmon::rng::hash_str(module) ^ lo as u64);
            }
        });
        // --- every mapped character of every built-in font, drawn
        let styles = run.tier(8u64, 400u64);
        run.generate("built-in-fonts-all-characters", nf * styles, true, 0.5, |ctx, idx, rng| {
            let fi = (idx % nf) as usize;
            let style = (idx / nf) as usize + (fi % 4) * 2;
            let (module, name, font) = FONTS[fi];
            let map = builtin_mapping(module);
            let fname = format!("{}::{}", module, name);
            let chars: Vec<char> = map.chars().collect();
            let index_of = |c: char| font.glyph_mapping.index(c);
            for chunk in chars.chunks(16) {
                let s: String = chunk.iter().collect();
                let t = text_of(s, FontD::Builtin(fi), style, rng);
                check_line(ctx, &t, font, &fname, &index_of, "built-in-font");
                ctx.nontrivial(egmon::rng::hash_str(&t.text) ^ egmon::rng::hash_str(&fname) ^ style as u64);
            }
            // unmapped characters render the replacement glyph
            let mapped: std::collections::HashSet<char> = map.chars().collect();
            let s: String = UNMAPPED.iter().filter(|c| !mapped.contains(*c)).collect();
            let t = text_of(format!("a{}z", s), FontD::Builtin(fi), style, rng);
            let q = font.glyph_mapping.index('?');
            let index_unm = |c: char| if mapped.contains(&c) { font.glyph_mapping.index(c) } else { q };
            check_line(ctx, &t, font, &fname, &index_unm, "built-in-font-unmapped");
            // a carriage return is an unmapped character as well - unless it is the first half of a
            // CR LF line ending: content "a..z" + CR, drawn with a CR LF ending after it
            let mut content = t.clone();
            content.text.push('\r');
            let mut drawn = content.clone();
            drawn.text.push_str("\r\n");
            check_line_drawn_as(ctx, &content, &drawn, font, &fname, &index_unm, "built-in-font-unmapped-cr");
            if ctx.wants_sample() {
                ctx.sample(|| jobj! {"font" => fname.clone(), "style" => style as u64, "characters" => chars.len() as u64});
            }
        });
        // --- custom fonts
        let nc = run.tier(200_000u64, 40_000_000u64);
        run.generate("custom-fonts", nc, false, 0.5, |ctx, idx, rng| {
            let mut f: CustomFontD = zoo::gen_custom_font(rng);
            // 1 in 16 of the small fonts: the glyphs are mapped to one range of consecutive characters that
            // spans the surrogate gap (U+D7FF is followed by U+E000: a range of `char`s has no code
            // points in between, so code-point arithmetic over a range miscounts by 2048; seeded `C14-15`),
            // alone or after a few listed characters
            if !f.closure_mapping && f.glyph_chars.len() >= 2 && f.glyph_chars.len() <= 200 && rng.chance(1, 16) {
                let n = f.glyph_chars.len();
                let listed = if n >= 4 && rng.chance(1, 2) { rng.usizer(1, 2) } else { 0 };
                let in_range = n - listed;
                let before_gap = rng.usizer(1, in_range.max(2) - 1).min(in_range);
                let first = 0xD800u32 - before_gap as u32;
                let mut chars: Vec<char> = (0..listed).map(|k| (b'A' + k as u8) as char).collect();
                let mut cp = first;
                while chars.len() < n {
                    if (0xD800..0xE000).contains(&cp) {
                        cp = 0xE000;
                    }
                    chars.push(char::from_u32(cp).unwrap());
                    cp += 1;
                }
                let mut mapping: String = chars[..listed].iter().collect();
                mapping.push('\0');
                mapping.push(chars[listed]);
                mapping.push(*chars.last().unwrap());
                // occasionally one more listed character after the range
                f.glyph_chars = chars;
                f.mapping = mapping;
                ctx.count("custom_fonts_with_a_range_across_the_surrogate_gap", 1);
            }
            let s: String = zoo::gen_custom_string(rng, &f).replace('\n', "");
            let t = text_of(s, FontD::Custom(f.clone()), idx as usize, rng);
            // ground truth of the mapping: the generator's character list (the mapping string handed
            // to the library is derived from it), or the closure's formula
            let index_of = |c: char| f.index_of(c);
            ctx.count(if f.closure_mapping { "custom_fonts_with_closure_mapping" } else if f.mapping.contains('\0') { "custom_fonts_with_range_mapping" } else { "custom_fonts_with_listed_mapping" }, 1);
            f.with_font(|font| check_line(ctx, &t, font, "custom", &index_of, "custom-font"));
            if t.text.chars().count() >= 2 {
                ctx.nontrivial(zoo::Desc::Text(t.clone()).hash());
            }
            if ctx.wants_sample() {
                ctx.sample(|| jobj! {"text" => zoo::Desc::Text(t.clone()).text()});
            }
        });
    })
}
