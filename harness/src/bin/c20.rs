//! C20 — MockDisplay is a faithful test oracle.
//! History + executable model: an independent map model is run in lockstep with random draw
//! histories under the four flag combinations; every operation runs inside catch_unwind and must
//! panic iff the model predicts it.
use egmon::{
    jobj, main_with, mon,
    target::{rect, Col, FastMap},
    Ctx, Rng, Run,
};
use embedded_graphics::{
    mock_display::{ColorMapping, MockDisplay},
    pixelcolor::*,
    prelude::*,
    primitives::{Circle, PrimitiveStyleBuilder, Rectangle},
    Pixel,
};

const N: i32 = 64;

#[derive(Clone, Default, PartialEq)]
struct Model {
    cells: FastMap<(i32, i32), u32>,
}

#[derive(Debug, PartialEq, Clone, Copy)]
enum Outcome {
    Ok,
    PanicOutOfBounds(i32, i32),
    PanicOverdraw(i32, i32),
}

impl Model {
    /// applies an ordered pixel list with MockDisplay's documented checking rules
    fn draw(&mut self, px: &[(i32, i32, u32)], allow_overdraw: bool, allow_oob: bool) -> Outcome {
        for &(x, y, c) in px {
            let inside = x >= 0 && y >= 0 && x < N && y < N;
            if !inside {
                if !allow_oob {
                    return Outcome::PanicOutOfBounds(x, y);
                }
                continue;
            }
            if !allow_overdraw && self.cells.contains_key(&(x, y)) {
                return Outcome::PanicOverdraw(x, y);
            }
            self.cells.insert((x, y), c);
        }
        Outcome::Ok
    }
    fn affected(&self) -> Option<(i32, i32, i32, i32)> {
        let mut it = self.cells.keys();
        let &(x0, y0) = it.next()?;
        let mut b = (x0, y0, x0, y0);
        for &(x, y) in it {
            b = (b.0.min(x), b.1.min(y), b.2.max(x), b.3.max(y));
        }
        Some(b)
    }
}

fn rand_point(rng: &mut Rng, hot: &Rectangle) -> (i32, i32) {
    match rng.below(12) {
        0 => (-rng.i32r(1, 3), rng.i32r(0, N - 1)),
        1 => (rng.i32r(0, N - 1), N + rng.i32r(0, 2)),
        2 => (N, rng.i32r(-1, N)),
        3 => (rng.i32r(0, N - 1), -1),
        4 => *rng.pick(&[(i32::MIN, 0), (0, i32::MAX), (-1, -1), (64, 64), (63, 64), (128, 5), (5, 128), (-64, 3)]),
        // far-away points that alias a cell of the hot area under index arithmetic that drops high
        // bits or folds rows into columns: one (or both) coordinates moved by a multiple of 64, of
        // 4096 or by a power of two up to 2^31 (added after seeded `C20-12`: `y << 6` without a range
        // check on y, wrong only from y = 2^26)
        5 => {
            let (x, y) = (hot.top_left.x + rng.i32r(0, hot.size.width as i32 - 1), hot.top_left.y + rng.i32r(0, hot.size.height as i32 - 1));
            let shift = |rng: &mut Rng| -> i32 {
                let m: i64 = match rng.below(4) {
                    0 => 64 * rng.i32r(1, 70) as i64,
                    1 => 4096 * rng.i32r(1, 1 << 18) as i64,
                    2 => 1i64 << rng.i32r(6, 31),
                    _ => (1i64 << rng.i32r(6, 30)) * rng.i32r(1, 31) as i64,
                };
                let m = if rng.chance(1, 3) { -m } else { m };
                m.clamp(i32::MIN as i64 + 64, i32::MAX as i64 - 64) as i32
            };
            match rng.below(3) {
                0 => (x.wrapping_add(shift(rng)), y),
                1 => (x, y.wrapping_add(shift(rng))),
                _ => (x.wrapping_add(shift(rng)), y.wrapping_add(shift(rng))),
            }
        }
        _ => (hot.top_left.x + rng.i32r(0, hot.size.width as i32 - 1), hot.top_left.y + rng.i32r(0, hot.size.height as i32 - 1)),
    }
}

fn area_list(a: &Rectangle) -> Vec<(i32, i32)> {
    let mut v = Vec::new();
    for y in a.top_left.y..a.top_left.y + a.size.height as i32 {
        for x in a.top_left.x..a.top_left.x + a.size.width as i32 {
            v.push((x, y));
        }
    }
    v
}

enum Real<C: PixelColor> {
    DrawIter,
    DrawPixel,
    FillSolid(Rectangle, C),
    FillContiguous(Rectangle, Vec<C>),
    Circle(embedded_graphics::primitives::Styled<Circle, embedded_graphics::primitives::PrimitiveStyle<C>>),
    Clear(C),
}

fn history<C: Col + ColorMapping>(ctx: &mut Ctx, rng: &mut Rng, palette: &[C]) {
    let flags = (rng.chance(1, 2), rng.chance(1, 2));
    let mut m = Model::default();
    let mut trace: Vec<String> = Vec::new();
    // constructors: new(), default(), from_points() (pre-filled cells), and a display that went
    // through Clone; every one of them starts with both checks enabled (documented default)
    let mut d = match rng.below(6) {
        0 => {
            trace.push("MockDisplay::default()".into());
            MockDisplay::<C>::default()
        }
        1 | 2 => {
            let c = *rng.pick(palette);
            let k = rng.usizer(0, 6);
            let pts: Vec<(i32, i32)> = (0..k).map(|_| (rng.i32r(0, N - 1), rng.i32r(0, N - 1))).collect();
            for p in &pts {
                m.cells.insert(*p, c.to_u32());
            }
            trace.push(format!("MockDisplay::from_points({:?}, {:#x})", pts, c.to_u32()));
            MockDisplay::<C>::from_points(pts.iter().map(|p| Point::new(p.0, p.1)), c)
        }
        3 => {
            trace.push("MockDisplay::new().clone()".into());
            #[allow(clippy::redundant_clone)]
            MockDisplay::<C>::new().clone()
        }
        _ => MockDisplay::<C>::new(),
    };
    // half of the histories with both checks on rely on the default instead of calling the setters
    let use_defaults = flags == (false, false) && rng.chance(1, 2);
    if !use_defaults {
        // the flags are reached through a detour of other settings every third time, and the two final
        // setters are called in either order: only the values in force when an operation runs may count
        // (seeded `C20-18`: a cached "no check enabled" flag that one setter never clears)
        if rng.chance(1, 3) {
            for _ in 0..rng.usizer(1, 4) {
                if rng.chance(1, 2) {
                    d.set_allow_overdraw(rng.chance(2, 3));
                } else {
                    d.set_allow_out_of_bounds_drawing(rng.chance(2, 3));
                }
            }
            ctx.count("histories_with_a_detour_of_flag_settings", 1);
        }
        if rng.chance(1, 2) {
            d.set_allow_overdraw(flags.0);
            d.set_allow_out_of_bounds_drawing(flags.1);
        } else {
            d.set_allow_out_of_bounds_drawing(flags.1);
            d.set_allow_overdraw(flags.0);
        }
    } else {
        ctx.count("histories_relying_on_default_flags", 1);
    }
    // operations concentrate on a small hot area so that repeated points are frequent
    // (placed so that the first and the last rows/columns of the display are reached as well)
    let (hw, hh) = (rng.u32r(2, 12), rng.u32r(2, 12));
    let edge = |rng: &mut Rng, size: u32| match rng.below(4) {
        0 => 0,
        1 => 64 - size as i32,
        _ => rng.i32r(0, 64 - size as i32),
    };
    let hot = rect(edge(rng, hw), edge(rng, hh), hw, hh);
    let n_ops = rng.usizer(1, 10);
    let cname = C::name();
    let pick = |rng: &mut Rng| *rng.pick(palette);
    for _ in 0..n_ops {
        // build the op as an ordered pixel list (what the documented semantics deliver) and a closure
        // one operation in nine hands the display more items than it has cells in a single call
        // (an area larger than the display that only partly overlaps it, or every cell once followed
        // by a short tail); they come first more often, while the display is still untouched
        let kind = if trace.is_empty() && rng.chance(1, 6) { 7 + rng.below(2) } else { rng.below(9) };
        let (px, label, real_op): (Vec<(i32, i32, C)>, String, Real<C>) = match kind {
            7 => {
                // one in twelve of these hands over more than a million points in one call (seeded
                // `C20-13`: a per-call item limit of 2^20 that also counts the ignored points)
                let a = if rng.chance(1, 12) {
                    rect(rng.i32r(-900, 10), rng.i32r(-900, 10), rng.u32r(1025, 1300), rng.u32r(1025, 1100))
                } else {
                    rect(rng.i32r(-130, 40), rng.i32r(-130, 40), rng.u32r(60, 170), rng.u32r(60, 170))
                };
                let c = pick(rng);
                let list: Vec<(i32, i32, C)> = area_list(&a).into_iter().map(|p| (p.0, p.1, c)).collect();
                match rng.below(3) {
                    0 => (list, format!("fill_solid({:?}, {:#x})", egmon::target::rt(&a), c.to_u32()), Real::FillSolid(a, c)),
                    1 => {
                        let n = list.len();
                        (list, format!("fill_contiguous({:?}, {} colours {:#x})", egmon::target::rt(&a), n, c.to_u32()), Real::FillContiguous(a, vec![c; n]))
                    }
                    _ => (list, format!("draw_iter(row-major points of {:?}, {:#x})", egmon::target::rt(&a), c.to_u32()), Real::DrawIter),
                }
            }
            8 => {
                let c = pick(rng);
                let mut list: Vec<(i32, i32, C)> = area_list(&rect(0, 0, 64, 64)).into_iter().map(|p| (p.0, p.1, c)).collect();
                let order = rng.below(3);
                match order {
                    0 => {}
                    1 => list.reverse(),
                    _ => rng.shuffle(&mut list),
                }
                let tail: Vec<(i32, i32, C)> = (0..rng.usizer(0, 3)).map(|_| { let p = rand_point(rng, &hot); (p.0, p.1, pick(rng)) }).collect();
                let l = format!("draw_iter(all 4096 cells {} {:#x}, then {:?})", ["row-major", "reversed", "shuffled"][order as usize], c.to_u32(), tail.iter().map(|p| (p.0, p.1, p.2.to_u32())).collect::<Vec<_>>());
                list.extend(tail);
                (list, l, Real::DrawIter)
            }
            0 | 1 => {
                let k = rng.usizer(0, 10);
                let mut v: Vec<(i32, i32, C)> = Vec::new();
                for _ in 0..k {
                    let p = if !v.is_empty() && rng.chance(1, 8) { (v[0].0, v[0].1) } else { rand_point(rng, &hot) };
                    v.push((p.0, p.1, pick(rng)));
                }
                let l = format!("draw_iter({:?})", v.iter().map(|p| (p.0, p.1, p.2.to_u32())).collect::<Vec<_>>());
                (v, l, Real::DrawIter)
            }
            2 => {
                let p = rand_point(rng, &hot);
                let c = pick(rng);
                (vec![(p.0, p.1, c)], format!("draw_pixel(({},{}), {:#x})", p.0, p.1, c.to_u32()), Real::DrawPixel)
            }
            3 => {
                let a = rect(hot.top_left.x + rng.i32r(-3, 6), hot.top_left.y + rng.i32r(-3, 6), rng.u32r(0, 6), rng.u32r(0, 5));
                let c = pick(rng);
                (area_list(&a).into_iter().map(|p| (p.0, p.1, c)).collect(), format!("fill_solid({:?}, {:#x})", egmon::target::rt(&a), c.to_u32()), Real::FillSolid(a, c))
            }
            4 => {
                let a = rect(hot.top_left.x + rng.i32r(-3, 6), hot.top_left.y + rng.i32r(-3, 6), rng.u32r(0, 5), rng.u32r(0, 4));
                let total = (a.size.width * a.size.height) as usize;
                let len = *rng.pick(&[0, total / 2, total, total + 3]);
                let cols: Vec<C> = (0..len).map(|_| pick(rng)).collect();
                (area_list(&a).into_iter().zip(cols.iter()).map(|(p, c)| (p.0, p.1, *c)).collect(), format!("fill_contiguous({:?}, {} colours)", egmon::target::rt(&a), len), Real::FillContiguous(a, cols.clone()))
            }
            5 => {
                // a drawable: styled circle via draw(); its pixel order is recorded on a harness target
                let c = Circle::new(Point::new(hot.top_left.x + rng.i32r(-4, 4), hot.top_left.y + rng.i32r(-4, 4)), rng.u32r(0, 9));
                let st = PrimitiveStyleBuilder::new().fill_color(pick(rng)).stroke_color(pick(rng)).stroke_width(rng.u32r(0, 2)).build();
                let styled = c.into_styled(st);
                let mut rec = egmon::target::IterTarget::<C>::new(egmon::target::unbounded_box());
                rec.log.keep_pixels = true;
                let _ = styled.draw(&mut rec);
                let v: Vec<(i32, i32, C)> = rec.log.events.iter().flat_map(|e| e.px.iter().map(|&(x, y, c)| (x, y, C::from_u32(c)))).collect();
                (v, format!("draw({:?} fill+stroke width {})", c, st.stroke_width), Real::Circle(styled))
            }
            _ => {
                let c = pick(rng);
                (area_list(&rect(0, 0, 64, 64)).into_iter().map(|p| (p.0, p.1, c)).collect(), format!("clear({:#x})", c.to_u32()), Real::Clear(c))
            }
        };
        trace.push(label.clone());
        let case = || format!("MockDisplay<{}> allow_overdraw={} allow_out_of_bounds_drawing={} ops: {}", cname, flags.0, flags.1, trace.join("; "));
        ctx.eval();
        let list: Vec<(i32, i32, u32)> = px.iter().map(|p| (p.0, p.1, p.2.to_u32())).collect();
        let predicted = m.draw(&list, flags.0, flags.1);
        // run the real operation under the panic monitor
        let real = mon::guard(|| match &real_op {
            Real::DrawPixel => d.draw_pixel(Point::new(px[0].0, px[0].1), px[0].2),
            Real::FillSolid(a, c) => {
                let _ = d.fill_solid(a, *c);
            }
            Real::FillContiguous(a, cols) => {
                let _ = d.fill_contiguous(a, cols.iter().copied());
            }
            Real::Circle(styled) => {
                let _ = styled.draw(&mut d);
            }
            Real::Clear(c) => {
                let _ = d.clear(*c);
            }
            Real::DrawIter => {
                let _ = d.draw_iter(px.iter().map(|p| Pixel(Point::new(p.0, p.1), p.2)));
            }
        });
        match (&real, predicted) {
            (Ok(()), Outcome::Ok) => {}
            (Err(pi), Outcome::Ok) => {
                ctx.violation(format!("panic-not-predicted|flags={}{}", flags.0 as u8, flags.1 as u8), case, || format!("the display panicked ({}) although no pixel is out of range / drawn twice with the check enabled", pi.msg));
                return;
            }
            (Ok(()), p) => {
                ctx.violation(format!("missing-panic|{}|flags={}{}", if matches!(p, Outcome::PanicOverdraw(..)) { "overdraw" } else { "out-of-bounds" }, flags.0 as u8, flags.1 as u8), case, || format!("model predicts {:?}, the display did not panic", p));
                return;
            }
            (Err(pi), p) => {
                let want = match p {
                    Outcome::PanicOverdraw(..) => "twice",
                    _ => "outside",
                };
                if !pi.msg.contains(want) {
                    ctx.violation("wrong-panic-kind", case, || format!("model predicts {:?}, panic message: {}", p, pi.msg));
                }
                ctx.count("predicted_panics_observed", 1);
                // after a panic the display is discarded
                return;
            }
        }
        // get_pixel = colour last drawn, None for untouched points
        for y in 0..N {
            for x in 0..N {
                let got = d.get_pixel(Point::new(x, y)).map(|c| c.to_u32());
                let want = m.cells.get(&(x, y)).copied();
                if got != want {
                    ctx.violation("get_pixel-differs-from-last-drawn-colour", case, || format!("get_pixel(({},{})) = {:x?}, model {:x?}", x, y, got, want));
                    return;
                }
            }
        }
        // affected_area = tight bounding box of the touched cells
        let aa = d.affected_area();
        let ok = match m.affected() {
            None => aa.is_zero_sized(),
            Some(b) => aa == rect(b.0, b.1, (b.2 - b.0 + 1) as u32, (b.3 - b.1 + 1) as u32),
        };
        if !ok {
            ctx.violation("affected_area-not-tight", case, || format!("affected_area() = {:?}, touched cells span {:?}", aa, m.affected()));
            return;
        }
    }
    // eq / diff against a second display that differs in k cells (k may be 0)
    ctx.eval();
    let mut d2 = d.clone();
    let mut m2 = m.clone();
    let k = *rng.pick(&[0usize, 0, 1, 1, 2, 5]);
    for _ in 0..k {
        let p = (rng.i32r(0, N - 1), rng.i32r(0, N - 1));
        if rng.chance(1, 3) {
            d2.set_pixel(Point::new(p.0, p.1), None);
            m2.cells.remove(&p);
        } else {
            let c = pick(rng);
            d2.set_pixel(Point::new(p.0, p.1), Some(c));
            m2.cells.insert(p, c.to_u32());
        }
    }
    let case = || format!("MockDisplay<{}> ops: {}; second display = copy with {} cell edits", cname, trace.join("; "), k);
    let equal_model = m == m2;
    if (d == d2) != equal_model {
        ctx.violation("eq-disagrees-with-cells", case, || format!("== is {}, cells equal is {}", d == d2, equal_model));
    }
    let diff = d.diff(&d2);
    let diff_empty = (0..N).all(|y| (0..N).all(|x| diff.get_pixel(Point::new(x, y)).is_none()));
    if diff_empty != equal_model {
        ctx.violation("diff-empty-disagrees-with-cells", case, || format!("diff empty is {}, cells equal is {}", diff_empty, equal_model));
    }
    // Debug output and from_pattern round-trip
    ctx.eval();
    let dbg = format!("{:?}", d);
    let rows: Vec<&str> = dbg.lines().filter(|l| !l.starts_with("MockDisplay[") && !l.starts_with('(') && *l != "]").collect();
    match mon::guard(|| MockDisplay::<C>::from_pattern(&rows)) {
        Ok(back) => {
            if back != d {
                ctx.violation("from_pattern-of-debug-output-differs", case, || format!("Debug output:\n{}", dbg));
            }
        }
        Err(pi) => ctx.violation("from_pattern-rejects-debug-output", case, || format!("{}\n{}", pi.msg, dbg)),
    }
    ctx.count("histories_completed", 1);
    ctx.count("operations", n_ops as u64);
    ctx.distinct("final_displays", egmon::rng::hash_str(&dbg));
    if m.cells.len() >= 2 {
        ctx.nontrivial(egmon::rng::hash_str(&trace.join(";")) ^ egmon::rng::hash_str(cname) ^ (flags.0 as u64) << 1 ^ flags.1 as u64);
    }
    if ctx.wants_sample() {
        ctx.sample(|| jobj! {"colour" => cname, "allow_overdraw" => flags.0, "allow_out_of_bounds_drawing" => flags.1, "ops" => trace.clone(), "touched_cells" => m.cells.len() as u64});
    }
}

/// Debug(from_pattern(p)) == p for random patterns over the colour type's alphabet
fn pattern_roundtrip<C: Col + ColorMapping>(ctx: &mut Ctx, rng: &mut Rng, alphabet: &[char]) {
    ctx.eval();
    let w = rng.usizer(0, 64);
    let h = rng.usizer(0, 64);
    let density = rng.below(4);
    let rows: Vec<String> = (0..h)
        .map(|_| {
            (0..w)
                .map(|_| if rng.below(4) < density { *rng.pick(alphabet) } else { ' ' })
                .collect()
        })
        .collect();
    let refs: Vec<&str> = rows.iter().map(|s| s.as_str()).collect();
    let case = || format!("MockDisplay<{}>::from_pattern({}x{} pattern) first rows {:?}", C::name(), w, h, &rows[..rows.len().min(3)]);
    let d = match mon::guard(|| MockDisplay::<C>::from_pattern(&refs)) {
        Ok(d) => d,
        Err(pi) => {
            ctx.violation("from_pattern-panics-on-valid-pattern", case, || pi.msg.clone());
            return;
        }
    };
    // cells match the pattern
    for y in 0..N as usize {
        for x in 0..N as usize {
            let ch = rows.get(y).and_then(|r| r.chars().nth(x)).unwrap_or(' ');
            let want = if ch == ' ' { None } else { Some(C::char_to_color(ch).to_u32()) };
            let got = d.get_pixel(Point::new(x as i32, y as i32)).map(|c| c.to_u32());
            if got != want {
                ctx.violation("from_pattern-cell-differs", case, || format!("cell ({},{}) = {:x?}, pattern char {:?}", x, y, got, ch));
                return;
            }
        }
    }
    // Debug prints the same pattern (64 columns, trailing empty rows skipped)
    let dbg = format!("{:?}", d);
    let got_rows: Vec<String> = dbg.lines().filter(|l| !l.starts_with("MockDisplay[") && !l.starts_with('(') && *l != "]").map(|s| s.to_string()).collect();
    let mut want_rows: Vec<String> = rows.iter().map(|r| format!("{:<64}", r)).collect();
    while want_rows.last().map(|r| r.trim().is_empty()).unwrap_or(false) {
        want_rows.pop();
    }
    if got_rows != want_rows {
        ctx.violation("debug-of-from_pattern-differs", case, || format!("Debug prints {} rows, pattern has {} non-trailing rows", got_rows.len(), want_rows.len()));
    }
    if w >= 2 && h >= 2 && density > 0 {
        ctx.nontrivial(egmon::rng::hash_str(&rows.join("\n")) ^ egmon::rng::hash_str(C::name()));
    }
}

fn main() {
    main_with("c20", "exploration", |run: &Run| {
        run.set_rule(
            "Random histories of 1..=10 operations (draw_iter with in-range, out-of-range and repeated points, draw_pixel, fill_solid, fill_contiguous with short/long streams, a styled circle via draw(), clear) on MockDisplay<BinaryColor/Gray4/Rgb565> under the four combinations of allow_overdraw / allow_out_of_bounds_drawing; \
             each operation runs inside catch_unwind and must panic iff the model predicts it; otherwise all 64x64 cells, affected_area, ==, diff and the Debug/from_pattern round trip are compared with the model. Plus random patterns over each colour type's alphabet (BinaryColor, Gray2, Gray4, Gray8, Rgb565, Rgb888). \
             Non-trivial = at least two cells touched; distinct = distinct (colour type, flags, operation trace).",
        );
        run.assume("get_pixel is probed only for points of the 64x64 display (its behaviour outside is undocumented)");
        let n = run.tier(40_000u64, 5_000_000u64);
        run.generate("histories-binary", n, false, 0.25, |ctx, _i, rng| history::<BinaryColor>(ctx, rng, &[BinaryColor::On, BinaryColor::Off]));
        run.generate("histories-gray4", n, false, 0.25, |ctx, _i, rng| {
            let pal: Vec<Gray4> = (0..16).map(Gray4::new).collect();
            history::<Gray4>(ctx, rng, &pal)
        });
        run.generate("histories-rgb565", n, false, 0.25, |ctx, _i, rng| {
            history::<Rgb565>(ctx, rng, &[Rgb565::BLACK, Rgb565::RED, Rgb565::GREEN, Rgb565::BLUE, Rgb565::YELLOW, Rgb565::MAGENTA, Rgb565::CYAN, Rgb565::WHITE])
        });
        let np = run.tier(6_000u64, 1_000_000u64);
        run.generate("patterns", np, false, 0.3, |ctx, idx, rng| match idx % 6 {
            0 => pattern_roundtrip::<BinaryColor>(ctx, rng, &['.', '#']),
            1 => pattern_roundtrip::<Gray2>(ctx, rng, &['0', '1', '2', '3']),
            2 => pattern_roundtrip::<Gray4>(ctx, rng, &['0', '1', '2', '3', '4', '5', '6', '7', '8', '9', 'A', 'B', 'C', 'D', 'E', 'F']),
            3 => pattern_roundtrip::<Gray8>(ctx, rng, &['0', '1', '5', '9', 'A', 'F']),
            4 => pattern_roundtrip::<Rgb565>(ctx, rng, &['K', 'R', 'G', 'B', 'Y', 'M', 'C', 'W']),
            _ => pattern_roundtrip::<Rgb888>(ctx, rng, &['K', 'R', 'G', 'B', 'Y', 'M', 'C', 'W']),
        });
    })
}
