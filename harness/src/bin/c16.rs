//! C16 — Rectangle operations agree with the set of points they describe.
//! Reference model: rectangles as half-open interval pairs in i64 (explicit point sets).
use egmon::{jobj, main_with, rng::mix, Ctx, Rng};
use embedded_graphics::{
    geometry::{AnchorPoint, AnchorX, AnchorY},
    prelude::*,
    primitives::Rectangle,
};

#[derive(Clone, Copy, Debug, PartialEq, Eq)]
struct M {
    x: i64,
    y: i64,
    w: i64,
    h: i64,
}

impl M {
    fn of(r: &Rectangle) -> M {
        M {
            x: r.top_left.x as i64,
            y: r.top_left.y as i64,
            w: r.size.width as i64,
            h: r.size.height as i64,
        }
    }
    fn empty(&self) -> bool {
        self.w == 0 || self.h == 0
    }
    fn contains(&self, px: i64, py: i64) -> bool {
        px >= self.x && px < self.x + self.w && py >= self.y && py < self.y + self.h
    }
    /// set intersection; None = empty set
    fn inter(&self, o: &M) -> Option<M> {
        if self.empty() || o.empty() {
            return None;
        }
        let x0 = self.x.max(o.x);
        let y0 = self.y.max(o.y);
        let x1 = (self.x + self.w).min(o.x + o.w);
        let y1 = (self.y + self.h).min(o.y + o.h);
        if x1 > x0 && y1 > y0 {
            Some(M { x: x0, y: y0, w: x1 - x0, h: y1 - y0 })
        } else {
            None
        }
    }
    /// smallest rectangle containing both, every dimension treated as at least `min` wide
    fn hull(&self, o: &M, min: i64) -> M {
        let x0 = self.x.min(o.x);
        let y0 = self.y.min(o.y);
        let x1 = (self.x + self.w.max(min)).max(o.x + o.w.max(min));
        let y1 = (self.y + self.h.max(min)).max(o.y + o.h.max(min));
        M { x: x0, y: y0, w: x1 - x0, h: y1 - y0 }
    }
    fn subset_of(&self, o: &M) -> bool {
        self.empty() || (self.x >= o.x && self.y >= o.y && self.x + self.w <= o.x + o.w && self.y + self.h <= o.y + o.h)
    }
}

fn mk(x: i32, y: i32, w: u32, h: u32) -> Rectangle {
    Rectangle::new(Point::new(x, y), Size::new(w, h))
}

fn fmt(r: &Rectangle) -> String {
    format!("Rectangle(({},{}), {}x{})", r.top_left.x, r.top_left.y, r.size.width, r.size.height)
}

fn check_pair(ctx: &mut Ctx, a: &Rectangle, b: &Rectangle) {
    let (ma, mb) = (M::of(a), M::of(b));
    let case = || format!("a={} b={}", fmt(a), fmt(b));
    let i_ab = a.intersection(b);
    let i_ba = b.intersection(a);
    ctx.eval();
    let want = ma.inter(&mb);
    for (name, got) in [("a.intersection(b)", &i_ab), ("b.intersection(a)", &i_ba)] {
        let mg = M::of(got);
        match want {
            None => {
                if !mg.empty() {
                    ctx.violation("rect|intersection|nonempty-result-for-disjoint-operands", case, || {
                        format!("{} = {} but the operands share no point; expected a zero-sized rectangle", name, fmt(got))
                    });
                }
            }
            Some(w) => {
                if mg != w {
                    ctx.violation("rect|intersection|wrong-point-set", case, || {
                        format!("{} = {} but the common points are ({},{}) {}x{}", name, fmt(got), w.x, w.y, w.w, w.h)
                    });
                }
            }
        }
        // contained in both (as a point set)
        if !mg.subset_of(&ma) || !mg.subset_of(&mb) {
            ctx.violation("rect|intersection|not-contained-in-operands", case, || format!("{} = {}", name, fmt(got)));
        }
    }
    // same point set in either order
    let (mi, mj) = (M::of(&i_ab), M::of(&i_ba));
    if !(mi == mj || (mi.empty() && mj.empty())) {
        ctx.violation("rect|intersection|asymmetric", case, || format!("a∩b={} b∩a={}", fmt(&i_ab), fmt(&i_ba)));
    }
    // envelope
    ctx.eval();
    let e = a.envelope(b);
    let e2 = b.envelope(a);
    let me = M::of(&e);
    if !ma.empty() && !mb.empty() {
        let w = ma.hull(&mb, 0);
        if me != w {
            ctx.violation("rect|envelope|not-minimal", case, || format!("envelope = {} expected ({},{}) {}x{}", fmt(&e), w.x, w.y, w.w, w.h));
        }
    } else {
        // documented: zero-sized dimensions are treated as 1. Required: contains every non-empty
        // operand, and is not larger than the documented result.
        let upper = ma.hull(&mb, 1);
        if !ma.subset_of(&me) || !mb.subset_of(&me) {
            ctx.violation("rect|envelope|misses-operand", case, || format!("envelope = {}", fmt(&e)));
        }
        if !me.subset_of(&upper) {
            ctx.violation("rect|envelope|larger-than-documented", case, || {
                format!("envelope = {} documented (zero size treated as 1) ({},{}) {}x{}", fmt(&e), upper.x, upper.y, upper.w, upper.h)
            });
        }
    }
    if e != e2 {
        ctx.violation("rect|envelope|asymmetric", case, || format!("a.envelope(b)={} b.envelope(a)={}", fmt(&e), fmt(&e2)));
    }
    if let Some(w) = want {
        if w != ma && w != mb {
            ctx.nontrivial(mix(mix(ma.x as u64, ma.y as u64) ^ mix(ma.w as u64, ma.h as u64), mix(mb.x as u64, mb.y as u64) ^ mix(mb.w as u64, mb.h as u64).rotate_left(7)));
            ctx.count("partial_overlaps", 1);
        }
    } else {
        ctx.count("disjoint_or_empty_pairs", 1);
    }
}

const ANCHORS: [AnchorPoint; 9] = [
    AnchorPoint::TopLeft,
    AnchorPoint::TopCenter,
    AnchorPoint::TopRight,
    AnchorPoint::CenterLeft,
    AnchorPoint::Center,
    AnchorPoint::CenterRight,
    AnchorPoint::BottomLeft,
    AnchorPoint::BottomCenter,
    AnchorPoint::BottomRight,
];

fn ax(m: &M, a: AnchorX) -> Option<i64> {
    match a {
        AnchorX::Left => Some(m.x),
        _ if m.w == 0 => None,
        AnchorX::Center => Some(m.x + (m.w - 1) / 2),
        AnchorX::Right => Some(m.x + m.w - 1),
    }
}
fn ay(m: &M, a: AnchorY) -> Option<i64> {
    match a {
        AnchorY::Top => Some(m.y),
        _ if m.h == 0 => None,
        AnchorY::Center => Some(m.y + (m.h - 1) / 2),
        AnchorY::Bottom => Some(m.y + m.h - 1),
    }
}

fn check_single(ctx: &mut Ctx, r: &Rectangle, sizes: &[(u32, u32)], offsets: &[i32], enumerate: bool) {
    let m = M::of(r);
    let case = || fmt(r);
    ctx.eval();
    // bottom_right
    let br = r.bottom_right();
    let want_br = if m.empty() { None } else { Some((m.x + m.w - 1, m.y + m.h - 1)) };
    if br.map(|p| (p.x as i64, p.y as i64)) != want_br {
        ctx.violation("rect|bottom_right", case, || format!("bottom_right() = {:?} expected {:?}", br, want_br));
    }
    // rows / columns
    let (rows, cols) = (r.rows(), r.columns());
    if (rows.start as i64, rows.end as i64) != (m.y, m.y + m.h) || (cols.start as i64, cols.end as i64) != (m.x, m.x + m.w) {
        ctx.violation("rect|rows-columns", case, || format!("rows {:?} columns {:?}", rows, cols));
    }
    // contains on the rectangle grown by 2 (capped window for big rectangles: corners only)
    let probes: Vec<(i64, i64)> = if enumerate {
        let mut v = Vec::new();
        for py in m.y - 2..m.y + m.h + 2 {
            for px in m.x - 2..m.x + m.w + 2 {
                v.push((px, py));
            }
        }
        v
    } else {
        let xs = [m.x - 1, m.x, m.x + 1, m.x + m.w / 2, m.x + m.w - 2, m.x + m.w - 1, m.x + m.w, m.x + m.w + 1];
        let ys = [m.y - 1, m.y, m.y + 1, m.y + m.h / 2, m.y + m.h - 2, m.y + m.h - 1, m.y + m.h, m.y + m.h + 1];
        xs.iter().flat_map(|&x| ys.iter().map(move |&y| (x, y))).collect()
    };
    for (px, py) in probes {
        let got = r.contains(Point::new(px as i32, py as i32));
        if got != m.contains(px, py) {
            ctx.violation("rect|contains", case, || format!("contains(({},{})) = {} expected {}", px, py, got, !got));
            break;
        }
        // the same question through the ContainsPoint trait (what generic code calls)
        let via_trait = embedded_graphics::primitives::ContainsPoint::contains(&*r, Point::new(px as i32, py as i32));
        if via_trait != got {
            ctx.violation("rect|contains|trait-differs-from-inherent", case, || format!("ContainsPoint::contains(({},{})) = {}, Rectangle::contains = {}", px, py, via_trait, got));
            break;
        }
    }
    // points(): row-major enumeration of the set
    if enumerate {
        let pts: Vec<Point> = r.points().take((m.w * m.h) as usize + 8).collect();
        let mut want = Vec::new();
        if !m.empty() {
            for py in m.y..m.y + m.h {
                for px in m.x..m.x + m.w {
                    want.push(Point::new(px as i32, py as i32));
                }
            }
        }
        if pts != want {
            ctx.violation("rect|points", case, || format!("points() yields {} points, expected {} row-major points; first {:?}", pts.len(), want.len(), pts.first()));
        }
        ctx.count("points_enumerated", pts.len() as u64);
        // the same sequence through the other ways of consuming an iterator, from partly consumed states
        if pts == want && want.len() <= 4096 {
            let n = want.len();
            let w = m.w.max(0) as usize;
            if let Some(d) = egmon::target::consumer_disagreement(&|| r.points(), &want, &[0, 1, w, w + 1, n / 2, n.saturating_sub(1), n]) {
                ctx.violation("rect|points|consumed-differently", case, || d.clone());
            }
            ctx.count("points_iterators_consumed_in_other_ways", 1);
        }
    }
    // center / with_center
    let c = r.center();
    if !m.empty() {
        let want = (m.x + (m.w - 1) / 2, m.y + (m.h - 1) / 2);
        if (c.x as i64, c.y as i64) != want {
            ctx.violation("rect|center", case, || format!("center() = {:?} expected {:?}", c, want));
        }
    }
    let back = Rectangle::with_center(c, r.size);
    if back != *r {
        ctx.violation("rect|with_center-identity", case, || format!("with_center(center(), size) = {}", fmt(&back)));
    }
    // anchor points
    for a in ANCHORS {
        let p = r.anchor_point(a);
        let (wx, wy) = (ax(&m, a.x()), ay(&m, a.y()));
        if wx.map(|w| w != p.x as i64).unwrap_or(false) || wy.map(|w| w != p.y as i64).unwrap_or(false) {
            ctx.violation("rect|anchor_point", case, || format!("anchor_point({:?}) = {:?} expected ({:?},{:?})", a, p, wx, wy));
        }
        if r.anchor_x(a.x()) != p.x || r.anchor_y(a.y()) != p.y {
            ctx.violation("rect|anchor_x-anchor_y-disagree", case, || format!("{:?}", a));
        }
    }
    // resized: anchor stays fixed
    for &(nw, nh) in sizes {
        for a in ANCHORS {
            ctx.eval();
            let r2 = r.resized(Size::new(nw, nh), a);
            let m2 = M::of(&r2);
            let mut ok = m2.w == nw as i64 && m2.h == nh as i64;
            // per axis
            let (ox, nx) = (ax(&m, a.x()), ax(&m2, a.x()));
            let (oy, ny) = (ay(&m, a.y()), ay(&m2, a.y()));
            if let (Some(o), Some(n)) = (ox, nx) {
                ok &= match a.x() {
                    AnchorX::Center => (o - n).abs() <= 1,
                    _ => o == n,
                };
            }
            if let (Some(o), Some(n)) = (oy, ny) {
                ok &= match a.y() {
                    AnchorY::Center => (o - n).abs() <= 1,
                    _ => o == n,
                };
            }
            if !ok {
                ctx.violation("rect|resized", case, || format!("resized({}x{}, {:?}) = {}", nw, nh, a, fmt(&r2)));
            }
            let rw = r.resized_width(nw, a.x());
            let rh = r.resized_height(nh, a.y());
            if rw.top_left.x != r2.top_left.x || rw.size.width != nw || rw.top_left.y != r.top_left.y || rw.size.height != r.size.height {
                ctx.violation("rect|resized_width", case, || format!("resized_width({}, {:?}) = {} but resized gives {}", nw, a.x(), fmt(&rw), fmt(&r2)));
            }
            if rh.top_left.y != r2.top_left.y || rh.size.height != nh || rh.top_left.x != r.top_left.x || rh.size.width != r.size.width {
                ctx.violation("rect|resized_height", case, || format!("resized_height({}, {:?}) = {} but resized gives {}", nh, a.y(), fmt(&rh), fmt(&r2)));
            }
        }
    }
    // offset: every side moves by n while the rectangle does not collapse
    // (the inherent method and the OffsetOutline trait method that generic code and the styled
    // shapes' fill_area()/stroke_area() call are two implementations)
    for &n in offsets {
        for (how, sig, o) in [("Rectangle::offset", "", r.offset(n)), ("OffsetOutline::offset", "|through-the-OffsetOutline-trait", embedded_graphics::primitives::OffsetOutline::offset(&*r, n))] {
            ctx.eval();
            let mo = M::of(&o);
            let n = n as i64;
            if m.w >= 1 && m.w + 2 * n >= 1 {
                if mo.x != m.x - n || mo.w != m.w + 2 * n {
                    ctx.violation(format!("rect|offset{}", sig), case, || format!("{}({}) = {} (x axis)", how, n, fmt(&o)));
                }
            }
            if m.h >= 1 && m.h + 2 * n >= 1 {
                if mo.y != m.y - n || mo.h != m.h + 2 * n {
                    ctx.violation(format!("rect|offset{}", sig), case, || format!("{}({}) = {} (y axis)", how, n, fmt(&o)));
                }
            }
            if m.w + 2 * n <= 0 && mo.w != 0 || m.h + 2 * n <= 0 && mo.h != 0 {
                ctx.violation(format!("rect|offset-collapse{}", sig), case, || format!("{}({}) = {} should collapse to zero size", how, n, fmt(&o)));
            }
        }
    }
}

fn check_corners(ctx: &mut Ctx, c1: Point, c2: Point) {
    ctx.eval();
    let r = Rectangle::with_corners(c1, c2);
    let m = M::of(&r);
    let want = M {
        x: c1.x.min(c2.x) as i64,
        y: c1.y.min(c2.y) as i64,
        w: (c1.x as i64 - c2.x as i64).abs() + 1,
        h: (c1.y as i64 - c2.y as i64).abs() + 1,
    };
    if m != want {
        ctx.violation("rect|with_corners", || format!("with_corners({:?},{:?})", c1, c2), || format!("= {}", fmt(&r)));
    }
}

fn main() {
    main_with("c16", "exploration", |run| {
        run.set_rule(
            "grid: every ordered pair of the rectangles with top-left in [-G,G+1]^2 and size in [0,S]^2 (exhaustive), every rectangle x 9 anchors x all sizes x offsets -6..=6, all corner pairs; \
             random: rectangles with coordinates/sizes up to +-2^20 (boundary-biased). A pair is non-trivial when the operands overlap partially (common points exist and differ from both operands); \
             distinct = distinct operand pairs.",
        );
        run.assume("reference model: half-open i64 interval pairs written in the harness");
        // grid
        let (lo, hi, smax) = run.tier((-3, 4, 4u32), (-4, 5, 5u32));
        let mut rects = Vec::new();
        for y in lo..=hi {
            for x in lo..=hi {
                for h in 0..=smax {
                    for w in 0..=smax {
                        rects.push(mk(x, y, w, h));
                    }
                }
            }
        }
        let n = rects.len() as u64;
        run.extra("grid_rectangles", egmon::J::UInt(n));
        run.generate("grid-pairs", n * n, true, 0.5, |ctx, idx, _rng| {
            let (a, b) = (&rects[(idx / n) as usize], &rects[(idx % n) as usize]);
            if ctx.wants_sample() {
                ctx.sample(|| jobj! {"a" => fmt(a), "b" => fmt(b), "intersection" => fmt(&a.intersection(b)), "envelope" => fmt(&a.envelope(b))});
            }
            check_pair(ctx, a, b);
        });
        let sizes: Vec<(u32, u32)> = (0..=smax + 1).flat_map(|w| (0..=smax + 1).map(move |h| (w, h))).collect();
        let offsets: Vec<i32> = (-6..=6).collect();
        run.generate("grid-single", n, true, 0.5, |ctx, idx, _rng| {
            let r = &rects[idx as usize];
            check_single(ctx, r, &sizes, &offsets, true);
            if !r.is_zero_sized() {
                ctx.nontrivial(mix(idx, 0x51));
            }
        });
        let span = (hi - lo + 1) as u64;
        let np = span * span;
        run.generate("grid-corners", np * np, true, 0.5, |ctx, idx, _rng| {
            let (i, j) = (idx / np, idx % np);
            let c1 = Point::new(lo + (i % span) as i32, lo + (i / span) as i32);
            let c2 = Point::new(lo + (j % span) as i32, lo + (j / span) as i32);
            check_corners(ctx, c1, c2);
        });
        // random large
        let nr = run.tier(2_000_000u64, 300_000_000u64);
        fn rr(rng: &mut Rng) -> Rectangle {
            let big = rng.chance(1, 2);
            let c = |rng: &mut Rng| if big { rng.i32r(-(1 << 20), 1 << 20) } else { rng.biased_i32(1100) };
            let s = |rng: &mut Rng| {
                if rng.chance(1, 10) {
                    0
                } else if big {
                    rng.u32r(0, 1 << 20)
                } else {
                    rng.biased_u32(1100)
                }
            };
            mk(c(rng), c(rng), s(rng), s(rng))
        }
        run.generate("random-pairs", nr, false, 0.6, |ctx, _idx, rng| {
            let a = rr(rng);
            // make overlaps likely: second rectangle near the first one half of the time
            let b = if rng.chance(1, 2) {
                let dx = rng.i32r(-(a.size.width as i32) - 2, a.size.width as i32 + 2);
                let dy = rng.i32r(-(a.size.height as i32) - 2, a.size.height as i32 + 2);
                let w = rng.u32r(0, a.size.width * 2 + 2);
                let h = rng.u32r(0, a.size.height * 2 + 2);
                mk(a.top_left.x + dx, a.top_left.y + dy, w, h)
            } else {
                rr(rng)
            };
            if ctx.wants_sample() {
                ctx.sample(|| jobj! {"a" => fmt(&a), "b" => fmt(&b), "intersection" => fmt(&a.intersection(&b))});
            }
            check_pair(ctx, &a, &b);
            let sizes = [(rng.biased_u32(2000), rng.biased_u32(2000)), (0, 1), (a.size.width, 0)];
            let offs = [rng.i32r(-6, 6), rng.i32r(-2000, 2000), 0];
            check_single(ctx, &a, &sizes, &offs, false);
            check_corners(ctx, a.top_left, b.top_left);
        });
        // numerically special operands: powers of two and their neighbours in coordinates and sizes
        // (uniform sampling practically never produces a width of exactly 65 536; added after seeded
        // `C16-12`, an area product that wraps to zero for 2^16 x 2^16 and 2^20 x 2^20)
        fn special(rng: &mut Rng, max_log: u32) -> u32 {
            let k = rng.below(max_log as u64 + 1) as u32;
            let base = 1u32 << k;
            let v = match rng.below(8) {
                0 => base.saturating_sub(1),
                1 => base + 1,
                2 => base + base / 2,
                3 => base.saturating_sub(rng.below(4) as u32),
                4 => base + rng.below(4) as u32,
                _ => base,
            };
            v.min(1 << max_log)
        }
        fn sr(rng: &mut Rng) -> Rectangle {
            let c = |rng: &mut Rng| {
                let v = special(rng, 20) as i32;
                match rng.below(5) {
                    0 => 0,
                    1 | 2 => -v,
                    _ => v,
                }
            };
            let s = |rng: &mut Rng| if rng.chance(1, 12) { 0 } else { special(rng, 21) };
            mk(c(rng), c(rng), s(rng), s(rng))
        }
        let ns = run.tier(600_000u64, 60_000_000u64);
        run.generate("special-pairs", ns, false, 0.5, |ctx, _idx, rng| {
            let a = sr(rng);
            let b = match rng.below(4) {
                0 => a,
                1 => mk(a.top_left.x + rng.i32r(-2, 2), a.top_left.y + rng.i32r(-2, 2), a.size.width, a.size.height),
                // centred on the origin, as `with_corners((-2^k, -2^k), (2^k - 1, 2^k - 1))` is
                2 => {
                    let (w, h) = (special(rng, 21), special(rng, 21));
                    mk(-((w / 2) as i32), -((h / 2) as i32), w, h)
                }
                _ => sr(rng),
            };
            if ctx.wants_sample() {
                ctx.sample(|| jobj! {"a" => fmt(&a), "b" => fmt(&b), "intersection" => fmt(&a.intersection(&b))});
            }
            check_pair(ctx, &a, &b);
            check_pair(ctx, &b, &b);
            let sizes = [(special(rng, 21), special(rng, 21)), (0, special(rng, 21)), (a.size.width, a.size.height)];
            let offs = [rng.i32r(-3, 3), special(rng, 16) as i32, -(special(rng, 16) as i32)];
            check_single(ctx, &a, &sizes, &offs, false);
            check_single(ctx, &b, &sizes, &offs, false);
            check_corners(ctx, a.top_left, b.top_left);
            check_corners(ctx, b.top_left, Point::new(b.top_left.x + b.size.width as i32 - 1, b.top_left.y + b.size.height as i32 - 1));
        });
    })
}
