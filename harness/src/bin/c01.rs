//! C01 — one image per drawable, whichever drawing path the target offers.
//! Relational oracle: draw() on a draw_iter-only target == draw() on a native-fill target
//! == pixels() fed to draw_iter (styled primitives).
use egmon::{
    jobj, main_with,
    target::{rect, unbounded_box, Col, IterTarget, NativeTarget, Recorder},
    zoo::{self, Desc, Dr, GenCfg, Prim, StyleD, Visitor, ZCol},
    Ctx, Run,
};
use embedded_graphics::{pixelcolor::*, prelude::*, primitives::Rectangle};

struct V<'c, 'r> {
    ctx: &'c mut Ctx<'r>,
}

fn boxes() -> [Rectangle; 3] {
    [rect(0, 0, 64, 64), rect(-7, 5, 40, 30), unbounded_box()]
}

impl<'c, 'r, C: ZCol> Visitor<C> for V<'c, 'r> {
    type Out = ();
    fn visit<D: Dr<C>>(&mut self, d: &D, desc: &Desc) {
        let kind = desc.kind();
        let ctx = &mut *self.ctx;
        let bb = d.bbox();
        let budget = (bb.size.width as u64 + 40) * (bb.size.height as u64 + 40) * 8 + 4096 + desc.overlap_allowance();
        let mut drew_something = false;
        for (bi, bx) in boxes().iter().enumerate() {
            ctx.eval();
            let case = || format!("{} colour {} target box {:?}", desc.text(), C::name(), egmon::target::rt(bx));
            let mut a = IterTarget::<C>::new(*bx);
            let mut b = NativeTarget::<C>::new(*bx);
            a.log.budget = budget;
            b.log.budget = budget;
            let ra = d.draw_on(&mut a);
            let rb = d.draw_on(&mut b);
            if a.log.over_budget || b.log.over_budget {
                ctx.violation(format!("{}|draw-exceeds-step-budget", kind), case, || format!("more than {} items handed to the target", budget));
                return;
            }
            match (&ra, &rb) {
                (Ok(x), Ok(y)) => {
                    if x != y {
                        ctx.violation(format!("{}|return-value-differs-between-targets", kind), case, || format!("draw_iter-only target: {:?}, native target: {:?}", x, y));
                    }
                }
                _ => {
                    ctx.violation(format!("{}|draw-error-without-fault", kind), case, || "draw returned Err".into());
                    return;
                }
            }
            // a native target that skips the colours of invisible points in bulk (Iterator::nth) instead
            // of pulling them one by one must end up with the same pixels
            if bi < 2 {
                let mut sk = NativeTarget::<C>::new(*bx);
                sk.log.budget = budget;
                sk.log.skip_invisible_with_nth = true;
                let _ = d.draw_on(&mut sk);
                if !sk.log.over_budget && !a.log.map.same(&sk.log.map) {
                    let class = diff_class(&a.log.map, &sk.log.map);
                    ctx.violation(format!("{}|default-fills-vs-native-fills-skipping-with-nth|{}", kind, class), case, || {
                        format!("pixel maps differ at {:?} (x, y, draw_iter-only target, native target that skips invisible colours with nth)", a.log.map.first_diff(&sk.log.map))
                    });
                }
                ctx.count("draw_calls_on_skipping_native_target", 1);
                // ... and so must targets that consume what they receive with for_each (Iterator::fold)
                let mut fa = IterTarget::<C>::new(*bx);
                let mut fb = NativeTarget::<C>::new(*bx);
                fa.log.budget = budget;
                fb.log.budget = budget;
                fa.log.internal_iteration = true;
                fb.log.internal_iteration = true;
                let _ = d.draw_on(&mut fa);
                let _ = d.draw_on(&mut fb);
                for (which, t) in [("draw_iter-only", &fa.log), ("native", &fb.log)] {
                    if !t.over_budget && !a.log.map.same(&t.map) {
                        let class = diff_class(&a.log.map, &t.map);
                        ctx.violation(format!("{}|target-consuming-with-for_each|{}", kind, class), case, || {
                            format!("pixel maps differ at {:?} (x, y, target pulling with next(), {} target consuming with for_each)", a.log.map.first_diff(&t.map), which)
                        });
                        break;
                    }
                }
                ctx.count("draw_calls_on_targets_consuming_with_for_each", 2);
            }
            ctx.count("draw_calls", 2);
            for k in 0..4 {
                ctx.count(["native_target_draw_iter_calls", "native_target_fill_contiguous_calls", "native_target_fill_solid_calls", "native_target_clear_calls"][k], b.log.calls_by_kind[k]);
            }
            if !a.log.map.same(&b.log.map) {
                let diff = a.log.map.first_diff(&b.log.map);
                let class = diff_class(&a.log.map, &b.log.map);
                ctx.violation(format!("{}|default-fills-vs-native-fills|{}", kind, class), case, || {
                    format!(
                        "pixel maps differ at {:?} (x, y, draw_iter-only target, native target); {} vs {} pixels\ndraw_iter-only:\n{}native:\n{}",
                        diff,
                        a.log.map.len(),
                        b.log.map.len(),
                        a.log.map.ascii(40),
                        b.log.map.ascii(40)
                    )
                });
            }
            if let Some(px) = d.pixels_vec(budget as usize + 1) {
                if px.len() as u64 > budget {
                    ctx.violation(format!("{}|pixels-exceeds-step-budget", kind), case, || format!("pixels() yields more than {} items", budget));
                    return;
                }
                let mut c = IterTarget::<C>::new(*bx);
                // (fed with draw_iter, or with the iterator's own draw() method of PixelIteratorExt, by turns)
                if px.len() % 2 == 0 {
                    let _ = c.draw_iter(px.iter().copied());
                } else {
                    let _ = embedded_graphics::iterator::PixelIteratorExt::draw(px.iter().copied(), &mut c);
                    ctx.count("pixel_iterators_drawn_with_their_own_draw_method", 1);
                }
                ctx.count("pixels_iterator_items", px.len() as u64);
                // "feeding the pixels() iterator" in other ways than a for loop yields the same sequence
                if bi == 0 && px.len() <= 1200 {
                    if let Some(dis) = d.pixels_consumed_differently(&px) {
                        ctx.violation(format!("{}|pixels-iterator-consumed-differently", kind), case, || dis.clone());
                    }
                    ctx.count("pixels_iterators_consumed_in_other_ways", 1);
                }
                if !a.log.map.same(&c.log.map) {
                    let diff = a.log.map.first_diff(&c.log.map);
                    let class = if c.log.map.is_empty() && !a.log.map.is_empty() { "pixels-yields-nothing".to_string() } else { diff_class(&a.log.map, &c.log.map) };
                    ctx.violation(format!("{}|draw-vs-pixels|{}", kind, class), case, || {
                        format!(
                            "pixel maps differ at {:?} (x, y, draw(), pixels()); {} vs {} pixels\ndraw():\n{}pixels():\n{}",
                            diff,
                            a.log.map.len(),
                            c.log.map.len(),
                            a.log.map.ascii(40),
                            c.log.map.ascii(40)
                        )
                    });
                }
            }
            if !a.log.map.is_empty() {
                drew_something = true;
                ctx.distinct("pixel_maps", a.log.map.hash() ^ bi as u64);
            }
            ctx.count("pixels_recorded", a.log.map.len() as u64);
        }
        // the same three paths through one of the library's own target adapters on a large parent:
        // a cropped view (its bounding box is the crop area, but drawing outside it still reaches the
        // parent), a clipped view and a translated view. A drawable that consults the target's
        // bounding box must not let draw() and pixels() (or the two kinds of parent) disagree.
        {
            use embedded_graphics::draw_target::DrawTargetExt;
            let h = desc.hash();
            let kind_ad = h % 3;
            let parent_box = rect(-400, -400, 1000, 1000);
            let (cx, cy) = (bb.top_left.x + bb.size.width as i32 / 2, bb.top_left.y + bb.size.height as i32 / 2);
            let area = match kind_ad {
                // crop box (0,0,w,h) in the drawable's coordinates ends at the drawable's centre
                0 => rect((h / 3 % 9) as i32 - 4, (h / 27 % 9) as i32 - 4, cx.unsigned_abs().clamp(1, 300), cy.unsigned_abs().clamp(1, 300)),
                // clip area cuts through the drawable
                _ => rect(cx - (h / 3 % 7) as i32, bb.top_left.y - 2, bb.size.width / 2 + 3, bb.size.height + 1),
            };
            // every sixth view is degenerate: an area of zero width and/or height inside the drawable,
            // or an area wholly outside the parent (a panel collapsed or scrolled away)
            let area = match h / 7 % 24 {
                0 => rect(cx, bb.top_left.y - 1, 0, bb.size.height + 2),
                1 => rect(bb.top_left.x - 1, cy, bb.size.width + 2, 0),
                2 => rect(cx, cy, 0, 0),
                3 => rect(5000 + (h % 5) as i32, -7000, 30, 40),
                _ => area,
            };
            if h / 7 % 24 < 4 {
                ctx.count("draws_through_degenerate_adapter_areas", 1);
            }
            let off = Point::new((h / 5 % 41) as i32 - 20, (h / 205 % 41) as i32 - 20);
            let adapter_text = || match kind_ad {
                0 => format!("cropped({:?})", egmon::target::rt(&area)),
                1 => format!("clipped({:?})", egmon::target::rt(&area)),
                _ => format!("translated(({},{}))", off.x, off.y),
            };
            let case = || format!("{} colour {} through {} of a parent with box {:?}{}", desc.text(), C::name(), adapter_text(), egmon::target::rt(&parent_box), ["; draw() parents consume with for_each", "; pixels() parent consumes with for_each", ""][(h / 11 % 3) as usize]);
            macro_rules! through {
                ($parent:expr, |$t:ident| $body:expr) => {
                    match kind_ad {
                        0 => {
                            let mut $t = $parent.cropped(&area);
                            $body
                        }
                        1 => {
                            let mut $t = $parent.clipped(&area);
                            $body
                        }
                        _ => {
                            let mut $t = $parent.translated(off);
                            $body
                        }
                    }
                };
            }
            ctx.eval();
            let mut a = IterTarget::<C>::new(parent_box);
            let mut b = NativeTarget::<C>::new(parent_box);
            a.log.budget = budget;
            b.log.budget = budget;
            // every third pair of parents consumes what it receives by internal iteration (for_each)
            let internal = h / 11 % 3 == 0;
            a.log.internal_iteration = internal;
            b.log.internal_iteration = internal;
            let ra = through!(a, |t| d.draw_on(&mut t));
            let rb = through!(b, |t| d.draw_on(&mut t));
            if !(a.log.over_budget || b.log.over_budget) {
                if ra.is_err() || rb.is_err() || ra.ok() != rb.ok() {
                    ctx.violation(format!("{}|adapter|return-value-differs-between-targets", kind), case, || "draw() returns different values on the two kinds of parent".into());
                }
                if !a.log.map.same(&b.log.map) {
                    ctx.violation(format!("{}|adapter|default-fills-vs-native-fills|{}", kind, diff_class(&a.log.map, &b.log.map)), case, || format!("parent maps differ at {:?} (x, y, draw_iter-only parent, native parent)", a.log.map.first_diff(&b.log.map)));
                }
                if let Some(px) = d.pixels_vec(budget as usize + 1) {
                    let mut c = IterTarget::<C>::new(parent_box);
                    c.log.internal_iteration = h / 11 % 3 == 1;
                    let _ = through!(c, |t| t.draw_iter(px.iter().copied()));
                    if !a.log.map.same(&c.log.map) {
                        ctx.violation(format!("{}|adapter|draw-vs-pixels|{}", kind, diff_class(&a.log.map, &c.log.map)), case, || {
                            format!("parent maps differ at {:?} (x, y, draw(), pixels() via draw_iter); {} vs {} pixels\ndraw():\n{}pixels():\n{}", a.log.map.first_diff(&c.log.map), a.log.map.len(), c.log.map.len(), a.log.map.ascii(40), c.log.map.ascii(40))
                        });
                    }
                }
                ctx.count("draws_through_library_adapters", 2);
            }
        }
        if drew_something {
            ctx.nontrivial(desc.hash() ^ egmon::rng::hash_str(C::name()));
        }
        if ctx.wants_sample() {
            ctx.sample(|| jobj! {"drawable" => desc.text(), "colour" => C::name()});
        }
    }
}

fn diff_class(a: &egmon::target::PixMap, b: &egmon::target::PixMap) -> String {
    let mut only_a = 0;
    let mut only_b = 0;
    let mut col = 0;
    for (&(x, y), &c) in &a.px {
        match b.get(x, y) {
            None => only_a += 1,
            Some(c2) if c2 != c => col += 1,
            _ => {}
        }
    }
    for (&(x, y), _) in &b.px {
        if a.get(x, y).is_none() {
            only_b += 1;
        }
    }
    match (only_a > 0, only_b > 0, col > 0) {
        (true, false, false) => "second-misses-pixels".into(),
        (false, true, false) => "second-has-extra-pixels".into(),
        (false, false, true) => "colours-differ".into(),
        _ => "pixel-sets-and-colours-differ".into(),
    }
}

fn visit_as<C: ZCol>(ctx: &mut Ctx, d: &Desc) {
    let mut v = V { ctx };
    d.visit::<C, _>(&mut v);
}

fn style_grid(i: u64) -> (StyleD, u64) {
    // presence (4) x width 0..=6 (7) x alignment (3) = 84
    let presence = i % 4;
    let width = ((i / 4) % 7) as u32;
    let align = ((i / 28) % 3) as u8;
    (
        StyleD {
            fill: if presence & 1 == 1 { Some(1) } else { None },
            stroke: if presence & 2 == 2 { Some(2) } else { None },
            width,
            align,
            dotted: false,
        },
        i / 84,
    )
}

fn main() {
    main_with("c01", "exploration", |run: &Run| {
        run.set_rule(
            "Each case is one drawable rendered on three target boxes (64x64 at the origin, 40x30 at (-7,5), unbounded) through draw() on a draw_iter-only target, draw() on a native-fill target and, for styled primitives, pixels() via draw_iter. \
             Generators: closed shapes exhaustive over sizes x {fill,stroke} presence x stroke width 0..=6 x 3 alignments; rounded rectangles with equal/unequal/oversized radii; triangles/lines on a vertex grid; arcs/sectors on an angle grid; \
             random styled primitives (all 9 kinds, small and medium scale); raw images and sub-images in 5 colour depths; text in built-in and custom fonts with all decoration combinations. \
             Non-trivial = at least one pixel landed in one of the boxes; distinct = distinct (drawable description, colour type).",
        );
        run.assume("the two recording targets implement the documented DrawTarget semantics (harness/src/target.rs)");
        let smax = run.tier(12u32, 24u32);
        let n_sizes = (smax as u64 + 1) * (smax as u64 + 1);
        // --- closed shapes, exhaustive small sizes
        for (shape, name) in [(0usize, "rect-grid"), (2, "ellipse-grid")] {
            run.generate(name, n_sizes * 84, true, 0.12, |ctx, idx, rng| {
                let (st, rest) = style_grid(idx);
                let (w, h) = ((rest % (smax as u64 + 1)) as u32, (rest / (smax as u64 + 1)) as u32);
                let tl = (rng.i32r(-6, 50), rng.i32r(-6, 50));
                let p = if shape == 0 { Prim::Rect { tl, size: (w, h) } } else { Prim::Ellipse { tl, size: (w, h) } };
                visit_as::<Rgb565>(ctx, &Desc::Styled(p, st));
            });
        }
        run.generate("circle-grid", (smax as u64 * 2 + 1) * 84, true, 0.1, |ctx, idx, rng| {
            let (st, rest) = style_grid(idx);
            let tl = (rng.i32r(-6, 50), rng.i32r(-6, 50));
            visit_as::<BinaryColor>(ctx, &Desc::Styled(Prim::Circle { tl, d: rest as u32 }, st));
        });
        let rr_n = run.tier(60_000u64, 1_200_000u64);
        run.generate("rounded-rect", rr_n, false, 0.15, |ctx, idx, rng| {
            let (st, _) = style_grid(idx % 84);
            let size = (rng.u32r(0, 14), rng.u32r(0, 14));
            let p = match zoo::gen_prim(rng, &GenCfg { pos: 20, size: 14, max_width: 6, dotted: false }, Some(3)) {
                Prim::RRect { tl, radii, .. } => Prim::RRect { tl, size, radii },
                p => p,
            };
            visit_as::<Rgb565>(ctx, &Desc::Styled(p, st));
        });
        // thin or elongated rounded rectangles with oversized, strongly elliptical, unequal radii and ONE
        // colour for stroke and fill: the radii of the stroke and of the fill area are confined
        // independently, so a fill pixel can lie outside the stroke scanline of its row (seeded `C01-13`:
        // the three runs of a row merged into one fill when both colours are equal - 0.004 % of such shapes)
        let thin_n = run.tier(500_000u64, 20_000_000u64);
        run.generate("rounded-rect-thin-one-colour", thin_n, false, 0.12, |ctx, idx, rng| {
            let (a, b) = (rng.u32r(1, 7), rng.u32r(8, 44));
            let size = match idx % 3 {
                0 => (a, b),
                1 => (b, a),
                _ => (rng.u32r(10, 40), rng.u32r(10, 40)),
            };
            let mut r = |rng: &mut egmon::Rng| match rng.below(5) {
                0 => (0, 0),
                1 => (rng.u32r(0, size.0), rng.u32r(0, size.1)),
                _ => (rng.u32r(0, size.0 * 3 + 2), rng.u32r(0, size.1 * 3 + 2)),
            };
            let radii = [r(rng), r(rng), r(rng), r(rng)];
            let colour = rng.u32r(1, 3);
            let st = StyleD { fill: Some(colour), stroke: Some(if idx % 8 == 7 { colour % 3 + 1 } else { colour }), width: rng.u32r(1, 3), align: rng.below(3) as u8, dotted: false };
            let p = Prim::RRect { tl: (rng.i32r(-6, 30), rng.i32r(-6, 30)), size, radii };
            visit_as::<Rgb565>(ctx, &Desc::Styled(p, st));
        });
        // --- triangles and lines on a 7x7 vertex grid, polylines
        let tri_n = run.tier(80_000u64, 1_500_000u64);
        run.generate("triangle-line-grid", tri_n, false, 0.15, |ctx, idx, rng| {
            let g = |rng: &mut egmon::Rng| (rng.i32r(0, 6) * 3 - 4, rng.i32r(0, 6) * 3 - 4);
            let (st, _) = style_grid(idx % 84);
            let p = if idx % 3 == 0 { Prim::Line { a: g(rng), b: g(rng) } } else { Prim::Tri { p: [g(rng), g(rng), g(rng)] } };
            visit_as::<Rgb565>(ctx, &Desc::Styled(p, st));
        });
        let pl_n = run.tier(40_000u64, 800_000u64);
        run.generate("polyline", pl_n, false, 0.12, |ctx, _idx, rng| {
            let d = zoo::gen_styled(rng, &GenCfg::SMALL, Some(6));
            visit_as::<Rgb565>(ctx, &d);
        });
        // --- arcs and sectors: diameters 0..=20 x 30 degree starts x sweeps -400..=400 step 25
        let ang_n = 21 * 12 * 33 * 2;
        run.generate("arc-sector-grid", ang_n, true, 0.12, |ctx, idx, rng| {
            let d = (idx % 21) as u32;
            let start = ((idx / 21) % 12) as f32 * 30.0;
            let sweep = -400.0 + ((idx / 252) % 33) as f32 * 25.0;
            let sector = (idx / (252 * 33)) % 2 == 1;
            let st = StyleD { fill: if rng.chance(1, 2) { Some(1) } else { None }, stroke: if rng.chance(3, 4) { Some(2) } else { None }, width: rng.u32r(0, 5), align: rng.below(3) as u8, dotted: false };
            let tl = (rng.i32r(-8, 40), rng.i32r(-8, 40));
            let p = if sector { Prim::Sector { tl, d, start, sweep } } else { Prim::Arc { tl, d, start, sweep } };
            visit_as::<Rgb565>(ctx, &Desc::Styled(p, st));
        });
        // --- random styled primitives
        let rs_n = run.tier(120_000u64, 12_000_000u64);
        run.generate("random-styled-small", rs_n, false, 0.2, |ctx, idx, rng| {
            let d = zoo::gen_styled(rng, &GenCfg::SMALL, None);
            if idx % 2 == 0 {
                visit_as::<Rgb565>(ctx, &d);
            } else {
                visit_as::<BinaryColor>(ctx, &d);
            }
        });
        let rm_n = run.tier(15_000u64, 400_000u64);
        run.generate("random-styled-medium", rm_n, false, 0.2, |ctx, _idx, rng| {
            let d = zoo::gen_styled(rng, &GenCfg { pos: 120, size: 200, max_width: 16, dotted: false }, None);
            visit_as::<Gray8>(ctx, &d);
        });
        // --- images and sub-images
        let im_n = run.tier(40_000u64, 4_000_000u64);
        run.generate("images", im_n, false, 0.25, |ctx, idx, rng| match idx % 5 {
            0 => visit_as::<BinaryColor>(ctx, &zoo::gen_image::<BinaryColor>(rng, 9, 5)),
            1 => visit_as::<Gray4>(ctx, &zoo::gen_image::<Gray4>(rng, 9, 5)),
            2 => visit_as::<Gray8>(ctx, &zoo::gen_image::<Gray8>(rng, 9, 5)),
            3 => visit_as::<Rgb565>(ctx, &zoo::gen_image::<Rgb565>(rng, 9, 5)),
            _ => visit_as::<Rgb888>(ctx, &zoo::gen_image::<Rgb888>(rng, 9, 5)),
        });
        // --- text
        let tx_n = run.tier(30_000u64, 4_000_000u64);
        run.generate("text", tx_n, false, 0.5, |ctx, idx, rng| {
            let d = zoo::gen_text(rng, (1, 4));
            if idx % 2 == 0 {
                visit_as::<Rgb565>(ctx, &d);
            } else {
                visit_as::<BinaryColor>(ctx, &d);
            }
        });
    })
}
