//! C17 — lines connect their end points and stay on the ideal line.
//! Exact integer oracle over the point sequences of Line::points() and Styled<Line>::pixels().
use egmon::{jobj, main_with, rng::mix, target::FastSet, Ctx, Run};
use embedded_graphics::{
    pixelcolor::BinaryColor,
    prelude::*,
    primitives::{Line, PrimitiveStyle, PrimitiveStyleBuilder, StrokeAlignment},
};

fn check_thin(ctx: &mut Ctx, a: Point, b: Point) -> Vec<Point> {
    ctx.eval();
    let line = Line::new(a, b);
    let (dx, dy) = ((b.x - a.x) as i64, (b.y - a.y) as i64);
    let major = dx.abs().max(dy.abs());
    let pts: Vec<Point> = line.points().take(major as usize + 10).collect();
    let case = || format!("Line {:?} -> {:?}", (a.x, a.y), (b.x, b.y));
    if pts.len() as i64 != major + 1 {
        ctx.violation("thin|point-count", case, || format!("{} points, expected max(|dx|,|dy|)+1 = {}", pts.len(), major + 1));
        return pts;
    }
    // the same points through the other ways of consuming the iterator, from partly consumed states
    if pts.len() <= 64 {
        let n = pts.len();
        if let Some(d) = egmon::target::consumer_disagreement(&|| line.points(), &pts, &[0, 1, n / 2, n - 1, n]) {
            ctx.violation("thin|points-iterator-consumed-differently", case, || d.clone());
        }
    }
    if pts.first() != Some(&a) {
        ctx.violation("thin|does-not-start-at-start", case, || format!("first point {:?}", pts.first()));
    }
    if pts.last() != Some(&b) {
        ctx.violation("thin|does-not-end-at-end", case, || format!("last point {:?}", pts.last()));
    }
    let x_major = dx.abs() >= dy.abs();
    for w in pts.windows(2) {
        let (sx, sy) = ((w[1].x - w[0].x) as i64, (w[1].y - w[0].y) as i64);
        let (smaj, smin, dmaj) = if x_major { (sx, sy, dx) } else { (sy, sx, dy) };
        if smaj != dmaj.signum() || smin.abs() > 1 {
            ctx.violation("thin|step-not-unit", case, || format!("step from {:?} to {:?}", w[0], w[1]));
            break;
        }
    }
    // every point within half a pixel of the ideal line (measured along the minor axis)
    if major > 0 {
        for p in &pts {
            let (px, py) = ((p.x - a.x) as i64, (p.y - a.y) as i64);
            let (i, m, dmaj, dmin) = if x_major { (px, py, dx, dy) } else { (py, px, dy, dx) };
            // ideal minor offset = i * dmin / dmaj  ->  |m * dmaj - i * dmin| * 2 <= |dmaj|
            let err = (m * dmaj - i * dmin).abs();
            if err * 2 > dmaj.abs() {
                ctx.violation("thin|point-farther-than-half-pixel-from-ideal-line", case, || format!("point {:?}: minor-axis error {}/{} px", p, err, dmaj.abs()));
                break;
            }
        }
    }
    pts
}

fn check_thick(ctx: &mut Ctx, a: Point, b: Point, w: u32, thin: &[Point]) {
    ctx.eval();
    let line = Line::new(a, b);
    // the stroke alignment of the style is documented to be ignored for lines: every clause must
    // hold for all three values (chosen by the case), via the shorthand constructor for Center half of the time
    let align = (a.x as i64 + 3 * b.y as i64 + w as i64).rem_euclid(4);
    let style = match align {
        0 => PrimitiveStyle::with_stroke(BinaryColor::On, w),
        1 => PrimitiveStyleBuilder::new().stroke_color(BinaryColor::On).stroke_width(w).stroke_alignment(StrokeAlignment::Inside).build(),
        2 => PrimitiveStyleBuilder::new().stroke_color(BinaryColor::On).stroke_width(w).stroke_alignment(StrokeAlignment::Outside).build(),
        _ => PrimitiveStyleBuilder::new().stroke_color(BinaryColor::On).stroke_width(w).stroke_alignment(StrokeAlignment::Center).build(),
    };
    let styled = line.into_styled(style);
    let (dx, dy) = ((b.x - a.x) as i64, (b.y - a.y) as i64);
    let len2 = dx * dx + dy * dy;
    let major = dx.abs().max(dy.abs());
    let budget = ((major + 2 * w as i64 + 8) * (2 * w as i64 + 8) * 4) as usize;
    let px: Vec<Point> = styled.pixels().take(budget + 1).map(|p| p.0).collect();
    let case = || format!("Line {:?} -> {:?} stroke width {} alignment {}", (a.x, a.y), (b.x, b.y), w, ["Center (with_stroke)", "Inside", "Outside", "Center"][align as usize]);
    if px.len() > budget {
        ctx.violation("thick|exceeds-step-budget", case, || format!("more than {} pixels", budget));
        return;
    }
    // the same pixels through the other ways of consuming the iterator (count, last, for_each/fold,
    // nth, skip), from partly consumed states: inside the first parallel, at a change of parallel, at the end
    if px.len() <= 400 {
        let n = px.len();
        let reference: Vec<embedded_graphics::Pixel<BinaryColor>> = px.iter().map(|p| embedded_graphics::Pixel(*p, BinaryColor::On)).collect();
        if let Some(d) = egmon::target::consumer_disagreement(&|| styled.pixels(), &reference, &[0, 1, 3, n / 2, (major as usize + 2).min(n), n.saturating_sub(1), n]) {
            ctx.violation("thick|pixels-iterator-consumed-differently", case, || d.clone());
        }
        ctx.count("styled_pixel_iterators_consumed_in_other_ways", 1);
    }
    // no pixel twice
    let mut set: FastSet<(i32, i32)> = FastSet::default();
    for p in &px {
        if !set.insert((p.x, p.y)) {
            ctx.violation("thick|pixel-yielded-twice", case, || format!("{:?} is yielded twice", p));
            break;
        }
    }
    // what draw() leaves on a target is that stroke: on an unbounded target, and on bounded targets
    // whose edges coincide with / cut through it (last row/column only, first row/column only, ...)
    // exactly its visible part (every third case)
    if px.len() <= 6000 && (a.x as i64 + 2 * b.x as i64 + 3 * a.y as i64 + w as i64).rem_euclid(3) == 0 {
        use egmon::target::{cut_boxes, restrict, unbounded_box, IterTarget, PixMap};
        let mut wm = PixMap::new();
        for q in &px {
            wm.set(q.x, q.y, 1);
        }
        let mut boxes = vec![unbounded_box()];
        if let Some(cut) = cut_boxes(&wm) {
            boxes.push(cut[(wm.hash() / 7 % 5) as usize]);
            boxes.push(cut[0]);
        }
        for bx in boxes {
            let mut t = IterTarget::<BinaryColor>::new(bx);
            let _ = styled.draw(&mut t);
            let want_in = restrict(&wm, &bx);
            if !t.log.map.same(&want_in) {
                ctx.violation("thick|draw-differs-from-pixels-inside-the-target", || format!("{} on target box {:?}", case(), egmon::target::rt(&bx)), || format!("first difference {:?} (x, y, drawn, pixels() inside the box)", t.log.map.first_diff(&want_in)));
                break;
            }
        }
        ctx.count("strokes_drawn_on_targets", 1);
    }
    // contains the thin line
    if let Some(m) = thin.iter().find(|p| !set.contains(&(p.x, p.y))) {
        ctx.violation("thick|thin-line-point-missing", case, || format!("{:?} of Line::points() is not part of the stroked line", m));
    }
    // width 1 equals points()
    if w == 1 && px != thin {
        ctx.violation("thick|width-1-differs-from-points", case, || format!("{} pixels vs {} points", px.len(), thin.len()));
    }
    let ww = w as i64;
    if len2 == 0 {
        // zero-length line: distance bound to the point only
        for p in &px {
            let (qx, qy) = ((p.x - a.x) as i64, (p.y - a.y) as i64);
            if 4 * (qx * qx + qy * qy) > (ww + 5) * (ww + 5) {
                ctx.violation("thick|zero-length|pixel-too-far", case, || format!("{:?}", p));
                break;
            }
        }
    } else {
        let (mut cmin, mut cmax, mut mid_n) = (i64::MAX, i64::MIN, 0);
        for p in &px {
            let (qx, qy) = ((p.x - a.x) as i64, (p.y - a.y) as i64);
            let cross = qx * dy - qy * dx; // = perpendicular distance * len
            let dot = qx * dx + qy * dy; // = projection * len
            // within w/2 + 2.5 px of the ideal line: (2|cross|)^2 <= (w+5)^2 len^2
            if (4 * (cross as i128) * (cross as i128)) > ((ww + 5) * (ww + 5)) as i128 * len2 as i128 {
                // verified cause predicate of the recorded finding: for wide strokes the parallel-line
                // algorithm draws oblique lines proportionally too thick (up to about 6.5 % per side)
                let dist = (cross as f64).abs() / (len2 as f64).sqrt();
                let excess = dist - ww as f64 / 2.0;
                let sig = if w >= 30 && excess <= 0.075 * ww as f64 + 0.5 {
                    "thick|pixel-farther-than-w/2+2.5-from-ideal-line|width>=30-and-excess<=7.5%-of-width".to_string()
                } else {
                    "thick|pixel-farther-than-w/2+2.5-from-ideal-line".to_string()
                };
                ctx.violation(sig, case, || format!("{:?}: distance {:.2} px from the ideal line, w/2 + 2.5 = {:.1}", p, dist, ww as f64 / 2.0 + 2.5));
                break;
            }
            // within one pixel of the segment's two ends: -len <= dot <= len^2 + len
            let beyond_start = dot < 0 && (dot as i128 * dot as i128) > len2 as i128;
            let over = dot - len2;
            let beyond_end = over > 0 && (over as i128 * over as i128) > len2 as i128;
            if beyond_start || beyond_end {
                ctx.violation("thick|pixel-more-than-1px-beyond-an-end", case, || format!("{:?}: projection {:.2} of length {:.2}", p, dot as f64 / (len2 as f64).sqrt(), (len2 as f64).sqrt()));
                break;
            }
            // near the middle: |dot - len^2/2| <= len  <=> |2 dot - len^2| <= 2 len
            let d2 = 2 * dot - len2;
            if (d2 as i128 * d2 as i128) <= 4 * len2 as i128 {
                cmin = cmin.min(cross);
                cmax = cmax.max(cross);
                mid_n += 1;
            }
        }
        // at least w-1 pixels wide at its middle: perpendicular spread >= w-2
        if w >= 3 && len2 >= 4 && mid_n > 0 {
            let spread = cmax - cmin; // * len
            if (spread as i128 * spread as i128) < ((ww - 2) * (ww - 2)) as i128 * len2 as i128 {
                ctx.violation("thick|narrower-than-w-1-at-the-middle", case, || format!("perpendicular spread near the middle {:.2} px", spread as f64 / (len2 as f64).sqrt()));
            }
        }
    }
    ctx.count("thick_pixels_checked", px.len() as u64);
}

fn one(ctx: &mut Ctx, a: Point, b: Point, widths: &[u32]) {
    let thin = check_thin(ctx, a, b);
    for &w in widths {
        check_thick(ctx, a, b, w, &thin);
    }
    if a != b {
        ctx.nontrivial(mix(mix(a.x as u32 as u64, a.y as u32 as u64), mix(b.x as u32 as u64, b.y as u32 as u64)));
    }
    if ctx.wants_sample() {
        ctx.sample(|| jobj! {"start" => format!("{:?}", (a.x, a.y)), "end" => format!("{:?}", (b.x, b.y)), "widths" => format!("{:?}", widths), "points" => thin.len() as u64});
    }
}

fn main() {
    main_with("c17", "exploration", |run: &Run| {
        run.set_rule(
            "All lines with both end points in [-R,R]^2 (exhaustive: all octants, horizontal, vertical, diagonal, zero length) x stroke widths 1..=W, at three positions (origin-centred, shifted negative, shifted far positive); \
             plus random long lines (|delta| <= 200, widths <= 20; display-scale lines up to +-1024 with widths up to 128; a few very long lines with a major-axis delta of 32 760..=46 000). Non-trivial = start != end; distinct = distinct (start, end).",
        );
        run.assume("very long lines stay inside the domain in which the squared Euclidean length fits the library's i32 arithmetic (length below 46 341 pixels); longer lines are not generated");
        let (r, wmax) = run.tier((10i32, 10u32), (18i32, 18u32));
        let span = (2 * r + 1) as u64;
        let n = span * span;
        let widths: Vec<u32> = (1..=wmax).collect();
        run.generate("grid", n * n, true, 0.6, |ctx, idx, _rng| {
            let (i, j) = (idx / n, idx % n);
            let a = Point::new((i % span) as i32 - r, (i / span) as i32 - r);
            let b = Point::new((j % span) as i32 - r, (j / span) as i32 - r);
            // the same line at different absolute positions
            let shift = match idx % 3 {
                0 => Point::zero(),
                1 => Point::new(-37, -53),
                _ => Point::new(411, 230),
            };
            one(ctx, a + shift, b + shift, &widths);
        });
        // deltas with a special arithmetic relationship: consecutive Fibonacci numbers (the longest
        // Euclidean sequences), powers of two and their neighbours, multiples and near-multiples of each
        // other (seeded `C17-14`: deltas reduced by a gcd whose loop is capped at 14 steps - wrong first
        // for 1597/987)
        let nsd = run.tier(3_000u64, 400_000u64);
        run.generate("special-deltas", nsd, false, 0.15, |ctx, idx, rng| {
            const FIB: [i32; 22] = [1, 2, 3, 5, 8, 13, 21, 34, 55, 89, 144, 233, 377, 610, 987, 1597, 2584, 4181, 6765, 10946, 17711, 28657];
            let (major, minor) = match idx % 6 {
                0 => {
                    let k = rng.usizer(1, FIB.len() - 1);
                    (FIB[k], FIB[k - 1])
                }
                1 => {
                    let k = rng.usizer(2, FIB.len() - 1);
                    (FIB[k] + rng.i32r(-1, 1), FIB[k - rng.usizer(1, 2)] + rng.i32r(-1, 1))
                }
                2 => ((1 << rng.i32r(1, 14)) + rng.i32r(-1, 1), (1 << rng.i32r(0, 13)) + rng.i32r(-1, 1)),
                3 => {
                    let m = rng.i32r(1, 60);
                    let q = rng.i32r(1, 500);
                    (m * q + rng.i32r(0, 1), m)
                }
                4 => {
                    // Lucas-like sequences from a random start: long Euclidean runs as well
                    let (mut a, mut b) = (rng.i32r(1, 9), rng.i32r(1, 9));
                    for _ in 0..rng.usizer(3, 16) {
                        let c = a + b;
                        a = b;
                        b = c;
                    }
                    (b.max(a), b.min(a))
                }
                _ => (rng.i32r(1000, 4000), rng.i32r(600, 3000)),
            };
            let (major, minor) = (major.max(minor).max(0), minor.min(major).max(0));
            let (sx, sy) = (if rng.chance(1, 2) { 1 } else { -1 }, if rng.chance(1, 2) { 1 } else { -1 });
            let d = if rng.chance(1, 2) { Point::new(major * sx, minor * sy) } else { Point::new(minor * sx, major * sy) };
            let a = Point::new(rng.i32r(-700, 700), rng.i32r(-700, 700));
            let ws = [1, rng.u32r(2, 6), 2];
            one(ctx, a, a + d, &ws);
            ctx.count("lines_with_special_deltas", 1);
        });
        let nr = run.tier(60_000u64, 20_000_000u64);
        run.generate("random-long", nr, false, 0.6, |ctx, _idx, rng| {
            // one line in eight lies far from the origin (beyond 16 bits on one or both axes)
            let far = |rng: &mut egmon::Rng| match rng.below(16) {
                0 => 32_768 + rng.i32r(-300, 300),
                1 => -32_768 + rng.i32r(-300, 300),
                2 => 65_536 + rng.i32r(-300, 300),
                3 => -rng.i32r(40_000, 1_000_000),
                4 => rng.i32r(40_000, 1_000_000),
                _ => rng.i32r(-300, 300),
            };
            let a = if rng.chance(1, 8) { Point::new(far(rng), far(rng)) } else { Point::new(rng.i32r(-300, 300), rng.i32r(-300, 300)) };
            let b = match rng.below(6) {
                0 => Point::new(a.x + rng.i32r(-200, 200), a.y),
                1 => Point::new(a.x, a.y + rng.i32r(-200, 200)),
                2 => {
                    let d = rng.i32r(-200, 200);
                    Point::new(a.x + d, a.y + if rng.chance(1, 2) { d } else { -d })
                }
                _ => Point::new(a.x + rng.i32r(-200, 200), a.y + rng.i32r(-200, 200)),
            };
            let ws = [1, rng.u32r(2, 20), rng.u32r(2, 8)];
            one(ctx, a, b, &ws);
            // 1 in 1000: a very long line (major-axis delta 32 760..=46 000, beyond the 16-bit range; the
            // squared length still fits an i32), axis-aligned, diagonal or oblique, thin and thick
            if rng.chance(1, 1000) {
                let a = Point::new(rng.i32r(-300, 300), rng.i32r(-300, 300));
                let major = rng.i32r(32_760, 46_000) * if rng.chance(1, 2) { 1 } else { -1 };
                let minor = match rng.below(4) {
                    0 => 0,
                    1 => major.abs(),
                    _ => rng.i32r(0, major.abs()),
                } * if rng.chance(1, 2) { 1 } else { -1 };
                // domain: the squared Euclidean length fits the library's i32 arithmetic (length < 46 341)
                let room = (((i32::MAX as i64) - (major as i64) * (major as i64)) as f64).sqrt() as i32 - 1;
                let minor = minor.clamp(-room, room);
                let b = if rng.chance(1, 2) { Point::new(a.x + major, a.y + minor) } else { Point::new(a.x + minor, a.y + major) };
                one(ctx, a, b, &[1, rng.u32r(2, 12)]);
                ctx.count("very_long_lines", 1);
            }
            // 1 in 16: display-scale line (up to +-1024) with a width up to 128
            if rng.chance(1, 16) {
                let a = Point::new(rng.biased_i32(1024), rng.biased_i32(1024));
                let b = Point::new(rng.biased_i32(1024), rng.biased_i32(1024));
                one(ctx, a, b, &[1, rng.u32r(2, 128)]);
            }
        });
    })
}
