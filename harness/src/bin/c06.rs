//! C06 — stroke and fill of closed shapes follow fill_area()/stroke_area().
//! Reference model built from the public fill_area()/stroke_area() + contains(), compared with
//! the recorded pixel maps of draw() on both targets and of pixels().
use egmon::{
    jobj, main_with,
    target::{rect, unbounded_box, Col, IterTarget, NativeTarget, PixMap},
    zoo::StyleD,
    Ctx, Rng, Run,
};
use embedded_graphics::{
    pixelcolor::Rgb565,
    prelude::*,
    primitives::{Circle, ContainsPoint, CornerRadii, Ellipse, OffsetOutline, PrimitiveStyle, Rectangle, RoundedRectangle, Styled},
    Pixel,
};

type C = Rgb565;

trait Shape: ContainsPoint + OffsetOutline + Dimensions + Copy + core::fmt::Debug {
    const KIND: &'static str;
    fn degenerate(&self) -> bool;
    fn render<T: DrawTarget<Color = C>>(s: &Styled<Self, PrimitiveStyle<C>>, t: &mut T) -> Result<(), T::Error>;
    fn pixels(s: &Styled<Self, PrimitiveStyle<C>>, budget: usize) -> Vec<Pixel<C>>;
    fn styled_bb(s: &Styled<Self, PrimitiveStyle<C>>) -> Rectangle;
}

macro_rules! shape {
    ($t:ty, $k:expr, $deg:expr) => {
        impl Shape for $t {
            const KIND: &'static str = $k;
            fn degenerate(&self) -> bool {
                let f: fn(&$t) -> bool = $deg;
                f(self)
            }
            fn render<T: DrawTarget<Color = C>>(s: &Styled<Self, PrimitiveStyle<C>>, t: &mut T) -> Result<(), T::Error> {
                s.draw(t)
            }
            fn pixels(s: &Styled<Self, PrimitiveStyle<C>>, budget: usize) -> Vec<Pixel<C>> {
                s.pixels().take(budget).collect()
            }
            fn styled_bb(s: &Styled<Self, PrimitiveStyle<C>>) -> Rectangle {
                s.bounding_box()
            }
        }
    };
}
shape!(Rectangle, "rectangle", |r| r.size.width == 0 || r.size.height == 0);
shape!(Circle, "circle", |c| c.diameter == 0);
shape!(Ellipse, "ellipse", |e| e.size.width == 0 || e.size.height == 0);
shape!(RoundedRectangle, "rounded_rectangle", |r| r.rectangle.size.width == 0 || r.rectangle.size.height == 0);

fn in_out(st: &StyleD) -> (u32, u32) {
    match st.align {
        0 => (st.width, 0),
        2 => (0, st.width),
        _ => ((st.width + 1) / 2, st.width / 2),
    }
}

fn check<S: Shape>(ctx: &mut Ctx, shape: S, st: StyleD) {
    ctx.eval();
    let style = st.build::<C>();
    let styled = Styled::new(shape, style);
    let fill_area = styled.fill_area();
    let stroke_area = styled.stroke_area();
    let kind = S::KIND;
    let case = || format!("{:?} style[{}]", shape, st.text());
    let bb = shape.bounding_box();
    // the areas reach at most the outside part of the stroke beyond the shape
    let m = in_out(&st).1.min(100_000) as i32 + 3;
    // expected map from the public areas
    let fill_c = st.fill.map(|f| C::nth(f).to_u32());
    let stroke_c = if st.width > 0 { st.stroke.map(|s| C::nth(s).to_u32()) } else { None };
    let mut want = PixMap::new();
    let (mut n_fill, mut n_stroke) = (0u64, 0u64);
    for y in bb.top_left.y - m..bb.top_left.y + bb.size.height as i32 + m {
        for x in bb.top_left.x - m..bb.top_left.x + bb.size.width as i32 + m {
            let p = Point::new(x, y);
            if fill_area.contains(p) {
                n_fill += 1;
                if let Some(c) = fill_c {
                    want.set(x, y, c);
                }
            } else if st.width > 0 && stroke_area.contains(p) {
                n_stroke += 1;
                if let Some(c) = stroke_c {
                    want.set(x, y, c);
                }
                // an inside stroke never paints outside the shape, an outside stroke never inside
                if !shape.degenerate() {
                    if st.align == 0 && !shape.contains(p) {
                        ctx.violation(format!("{}|inside-stroke-area-outside-shape", kind), case, || format!("{:?} is in the stroke area but not in the shape", p));
                    }
                    if st.align == 2 && shape.contains(p) {
                        ctx.violation(format!("{}|outside-stroke-area-inside-shape", kind), case, || format!("{:?} is in the stroke area and in the shape, but not in the fill area", p));
                    }
                }
            }
        }
    }
    let budget = ((bb.size.width as usize + 2 * m as usize) * (bb.size.height as usize + 2 * m as usize)) * 4 + 64;
    let mut a = IterTarget::<C>::new(unbounded_box());
    let mut b = NativeTarget::<C>::new(unbounded_box());
    a.log.budget = budget as u64;
    b.log.budget = budget as u64;
    let _ = S::render(&styled, &mut a);
    let _ = S::render(&styled, &mut b);
    let px = S::pixels(&styled, budget + 1);
    let mut c = IterTarget::<C>::new(unbounded_box());
    let _ = c.draw_iter(px.iter().copied());
    if a.log.over_budget || b.log.over_budget || px.len() > budget {
        ctx.violation(format!("{}|exceeds-step-budget", kind), case, || format!("more than {} items", budget));
        return;
    }
    // the same shape and style assembled by assigning the public fields of a `Styled` that was made
    // from another primitive style (all fields of `Styled` and `PrimitiveStyle` are public; a value
    // derived at construction time would be stale here - see seeded `C15-17` for the text analogue)
    let mut fa = IterTarget::<C>::new(unbounded_box());
    fa.log.budget = budget as u64;
    {
        // (the other style is dotted, made by the builder: a flag derived from the stroke style at build
        // time would be stale after the assignment below; seeded `C06-18`)
        let mut ps = embedded_graphics::primitives::PrimitiveStyleBuilder::<C>::new().stroke_color(C::nth(6)).stroke_width(st.width.wrapping_add(3)).stroke_style(embedded_graphics::primitives::StrokeStyle::Dotted).build();
        let mut s2 = Styled::new(shape, ps);
        ps.fill_color = style.fill_color;
        ps.stroke_color = style.stroke_color;
        ps.stroke_width = style.stroke_width;
        ps.stroke_alignment = style.stroke_alignment;
        ps.stroke_style = style.stroke_style;
        s2.style = ps;
        s2.primitive = shape;
        let _ = S::render(&s2, &mut fa);
        if s2.fill_area().bounding_box() != fill_area.bounding_box() || s2.stroke_area().bounding_box() != stroke_area.bounding_box() || S::styled_bb(&s2) != S::styled_bb(&styled) {
            ctx.violation(format!("{}|field-assigned-style|areas-differ", kind), case, || "fill_area(), stroke_area() or bounding_box() of a Styled whose public fields were assigned differ from those of the constructed one".to_string());
        }
    }
    for (path, map) in [("draw()/draw_iter-only", &a.log.map), ("draw()/native", &b.log.map), ("pixels()", &c.log.map), ("draw()/field-assigned-style", &fa.log.map)] {
        if !map.same(&want) {
            // classify: what is wrong relative to the areas
            let (mut miss_fill, mut miss_stroke, mut extra, mut wrong) = (0, 0, 0, 0);
            for (&(x, y), &wc) in &want.px {
                match map.get(x, y) {
                    None => {
                        if Some(wc) == fill_c && fill_area.contains(Point::new(x, y)) {
                            miss_fill += 1
                        } else {
                            miss_stroke += 1
                        }
                    }
                    Some(g) if g != wc => wrong += 1,
                    _ => {}
                }
            }
            for (&(x, y), _) in &map.px {
                if want.get(x, y).is_none() {
                    extra += 1;
                }
            }
            let class = match (miss_fill > 0, miss_stroke > 0, extra > 0, wrong > 0) {
                (true, false, false, false) => "fill-points-not-painted",
                (false, true, false, false) => "stroke-points-not-painted",
                (false, false, true, false) => "points-outside-both-areas-painted",
                (false, false, false, true) => "stroke-and-fill-colours-swapped",
                _ => "several-kinds-of-mismatch",
            };
            let path_class = if path == "pixels()" { "pixels" } else { "draw" };
            ctx.violation(format!("{}|{}|{}", kind, path_class, class), case, || {
                format!(
                    "{}: painted map differs from the areas at {:?} (x, y, painted, expected); fill area {:?} ({} points), stroke area {:?} ({} stroke-only points)\npainted:\n{}expected:\n{}",
                    path,
                    map.first_diff(&want),
                    fill_area,
                    n_fill,
                    stroke_area,
                    n_stroke,
                    map.ascii(36),
                    want.ascii(36)
                )
            });
        }
    }
    // the same on bounded targets whose edges coincide with / cut through the painted region: inside
    // the target exactly the points of the areas are painted (a drawable may cull against the
    // target's box, but must not lose a point that lies inside it)
    if !want.is_empty() {
        let (mut x0, mut y0, mut x1, mut y1) = (i32::MAX, i32::MAX, i32::MIN, i32::MIN);
        for &(x, y) in want.px.keys() {
            x0 = x0.min(x);
            y0 = y0.min(y);
            x1 = x1.max(x);
            y1 = y1.max(y);
        }
        let (w, h) = ((x1 - x0 + 1) as u32, (y1 - y0 + 1) as u32);
        let k = (want.hash() % 3) as i32 + 1;
        let boxes = [
            rect(x0, y0, w, h),                                  // tight: every edge of the target is a painted edge
            rect(x0 - k, y0 - k, w, h),                          // cuts k columns/rows at the right/bottom
            rect(x0 + k, y0 + k, w, h),                          // cuts at the left/top
            rect(x0 - 2, y0 + (h as i32) / 2, w + 4, h),         // upper half cut away
        ];
        let bx = boxes[(want.hash() / 3 % 4) as usize];
        let mut want_in = PixMap::new();
        for (&(x, y), &c) in &want.px {
            if x >= bx.top_left.x && y >= bx.top_left.y && x < bx.top_left.x + bx.size.width as i32 && y < bx.top_left.y + bx.size.height as i32 {
                want_in.set(x, y, c);
            }
        }
        let mut a = IterTarget::<C>::new(bx);
        let mut b = NativeTarget::<C>::new(bx);
        a.log.budget = budget as u64;
        b.log.budget = budget as u64;
        let _ = S::render(&styled, &mut a);
        let _ = S::render(&styled, &mut b);
        ctx.count("bounded_target_draws", 2);
        for (path, map) in [("draw()/draw_iter-only", &a.log.map), ("draw()/native", &b.log.map)] {
            if !map.same(&want_in) {
                ctx.violation(format!("{}|draw-on-bounded-target|differs-from-areas-inside-the-target", kind), || format!("{} on target box {:?}", case(), egmon::target::rt(&bx)), || {
                    format!("{}: first difference {:?} (x, y, painted, expected)\npainted:\n{}expected:\n{}", path, map.first_diff(&want_in), map.ascii(36), want_in.ascii(36))
                });
                break;
            }
        }
    }
    // geometry of the areas for non-degenerate shapes
    if !shape.degenerate() {
        let (ins, outs) = in_out(&st);
        let sb = stroke_area.bounding_box();
        let want_sb = (bb.top_left.x as i64 - outs as i64, bb.top_left.y as i64 - outs as i64, bb.size.width as i64 + 2 * outs as i64, bb.size.height as i64 + 2 * outs as i64);
        if (sb.top_left.x as i64, sb.top_left.y as i64, sb.size.width as i64, sb.size.height as i64) != want_sb {
            ctx.violation(format!("{}|stroke-area-not-grown-by-outside-width", kind), case, || format!("stroke area box {:?}, expected {:?}", sb, want_sb));
        }
        let fb = fill_area.bounding_box();
        let (fw, fh) = (bb.size.width as i64 - 2 * ins as i64, bb.size.height as i64 - 2 * ins as i64);
        if fw > 0 && fh > 0 {
            let want_fb = (bb.top_left.x as i64 + ins as i64, bb.top_left.y as i64 + ins as i64, fw, fh);
            if (fb.top_left.x as i64, fb.top_left.y as i64, fb.size.width as i64, fb.size.height as i64) != want_fb {
                ctx.violation(format!("{}|fill-area-not-shrunk-by-inside-width", kind), case, || format!("fill area box {:?}, expected {:?}", fb, want_fb));
            }
        } else {
            // collapsed in at least one direction: zero-sized in that direction
            if (fw <= 0 && fb.size.width != 0) || (fh <= 0 && fb.size.height != 0) {
                ctx.violation(format!("{}|collapsed-fill-area-not-zero-sized", kind), case, || format!("fill area box {:?}", fb));
            }
        }
        // styled bounding box = stroke area box when a stroke is drawn... (checked by C02)
        let _ = S::styled_bb(&styled);
    }
    ctx.count("pixels_compared", want.len() as u64 * 3);
    ctx.distinct("pixel_maps", want.hash());
    if n_fill + n_stroke > 0 && (st.fill.is_some() || stroke_c.is_some()) {
        ctx.nontrivial(egmon::rng::hash_str(&case()));
    }
    if ctx.wants_sample() {
        ctx.sample(|| jobj! {"shape" => format!("{:?}", shape), "style" => st.text(), "fill_points" => n_fill, "stroke_points" => n_stroke});
    }
}

fn style_at(i: u64, widths: u64) -> (StyleD, u64) {
    // presence: none, fill, stroke, both in different colours, both in the same colour
    let presence = i % 5;
    let width = ((i / 5) % widths) as u32;
    let align = ((i / (5 * widths)) % 3) as u8;
    let (fill, stroke) = match presence {
        0 => (None, None),
        1 => (Some(1), None),
        2 => (None, Some(2)),
        3 => (Some(1), Some(2)),
        _ => (Some(2), Some(2)),
    };
    (StyleD { fill, stroke, width, align, dotted: false }, i / (15 * widths))
}

fn pos(rng: &mut Rng) -> Point {
    Point::new(rng.i32r(-20, 20), rng.i32r(-20, 20))
}

fn main() {
    main_with("c06", "exploration", |run: &Run| {
        run.set_rule(
            "Rectangle, Circle, Ellipse, RoundedRectangle x all sizes 0..=N (w and h independently) x stroke widths 0..=W (also wider than the shape, so that the fill area collapses) x 3 alignments x {none, fill, stroke, both in different colours, both in the same colour}; \
             rounded rectangles with equal radii (exhaustive small) and random unequal/oversized radii. Each case compares draw() on two unbounded targets, pixels(), and draw() on two bounded targets (edges coinciding with or cutting through the painted region) with the map predicted from fill_area()/stroke_area().contains(). \
             Non-trivial = at least one point lies in an area and a colour is set; distinct = distinct (shape, style).",
        );
        run.assume("Solid stroke style only (the statement's domain)");
        let (n, widths) = run.tier((12u64, 14u64), (28u64, 30u64));
        let sizes = (n + 1) * (n + 1);
        let styles = 15 * widths;
        run.generate("rectangle", sizes * styles, true, 0.2, |ctx, idx, rng| {
            let (st, rest) = style_at(idx, widths);
            let (w, h) = ((rest % (n + 1)) as u32, (rest / (n + 1)) as u32);
            check(ctx, Rectangle::new(pos(rng), Size::new(w, h)), st);
        });
        run.generate("ellipse", sizes * styles, true, 0.25, |ctx, idx, rng| {
            let (st, rest) = style_at(idx, widths);
            let (w, h) = ((rest % (n + 1)) as u32, (rest / (n + 1)) as u32);
            check(ctx, Ellipse::new(pos(rng), Size::new(w, h)), st);
        });
        run.generate("circle", (2 * n + 1) * styles, true, 0.1, |ctx, idx, rng| {
            let (st, rest) = style_at(idx, widths);
            check(ctx, Circle::new(pos(rng), rest as u32), st);
        });
        let rn = run.tier(10u64, 14u64);
        let rsizes = (rn + 1) * (rn + 1);
        run.generate("rounded-rectangle-equal-radii", rsizes * styles * 6, true, 0.3, |ctx, idx, rng| {
            let (st, rest) = style_at(idx, widths);
            let (w, h) = ((rest % (rn + 1)) as u32, ((rest / (rn + 1)) % (rn + 1)) as u32);
            let r = [(0u32, 0u32), (1, 1), (2, 3), (3, 2), (5, 5), (40, 40)][((rest / rsizes) % 6) as usize];
            check(ctx, RoundedRectangle::with_equal_corners(Rectangle::new(pos(rng), Size::new(w, h)), Size::new(r.0, r.1)), st);
        });
        // a few large shapes with wide strokes (sizes/widths beyond 255 and around 128)
        let nl = run.tier(48u64, 2000u64);
        run.generate("large-shapes", nl, false, 0.3, |ctx, idx, rng| {
            let big = |rng: &mut Rng| *rng.pick(&[255u32, 256, 257, 300, 320]) + rng.u32r(0, 3);
            let (w, h) = if idx % 2 == 0 { (big(rng), rng.u32r(1, 60)) } else { (rng.u32r(1, 60), big(rng)) };
            let st = StyleD { fill: if rng.chance(2, 3) { Some(1) } else { None }, stroke: if rng.chance(3, 4) { Some(2) } else { None }, width: *rng.pick(&[0u32, 1, 2, 3, 31, 64, 127, 128, 129, 140]), align: rng.below(3) as u8, dotted: false };
            match (idx / 2) % 4 {
                0 => check(ctx, Rectangle::new(pos(rng), Size::new(w, h)), st),
                1 => check(ctx, Circle::new(pos(rng), w.max(h)), st),
                2 => check(ctx, Ellipse::new(pos(rng), Size::new(w, h)), st),
                _ => {
                    let mut r = |rng: &mut Rng| Size::new(rng.u32r(0, w), rng.u32r(0, h));
                    let corners = CornerRadii { top_left: r(rng), top_right: r(rng), bottom_right: r(rng), bottom_left: r(rng) };
                    check(ctx, RoundedRectangle::new(Rectangle::new(pos(rng), Size::new(w, h)), corners), st)
                }
            }
        });
        // circles of 600..1400 px (seeded `C06-13`: row widths from an integer square root whose Newton
        // iteration is capped - exact for every drawn diameter below 732)
        let nc = run.tier(32u64, 800u64);
        run.generate("large-circles", nc, false, 0.25, |ctx, idx, rng| {
            const D: [u32; 8] = [731, 732, 752, 760, 924, 948, 1001, 1024];
            let d = if idx < 8 { D[idx as usize] } else { rng.u32r(600, 1400) };
            let st = StyleD { fill: if rng.chance(2, 3) { Some(1) } else { None }, stroke: if rng.chance(2, 3) { Some(2) } else { None }, width: *rng.pick(&[0u32, 1, 2, 5, 40]), align: rng.below(3) as u8, dotted: false };
            check(ctx, Circle::new(pos(rng), d), st);
            ctx.count("circles_of_600_px_and_more", 1);
        });
        // one side beyond 16 bits (flat or tall shapes: the point count stays small): squared half-widths
        // pass 2^32 (seeded `C06-12`: a per-row limit of the ellipse stored in u32)
        let nh = run.tier(36u64, 600u64);
        run.generate("one-side-beyond-16-bit", nh, false, 0.2, |ctx, idx, rng| {
            let long = *rng.pick(&[65_535u32, 65_536, 65_537, 65_538, 70_001, 92_682, 131_073]) + if idx % 3 == 2 { rng.u32r(0, 500) } else { 0 };
            let short = rng.u32r(1, 6);
            let (w, h) = if idx % 2 == 0 { (long, short) } else { (short, long) };
            let st = StyleD { fill: if rng.chance(2, 3) { Some(1) } else { None }, stroke: if rng.chance(3, 4) { Some(2) } else { None }, width: rng.u32r(0, 3), align: rng.below(3) as u8, dotted: false };
            let at = (rng.i32r(-70_000, 100), rng.i32r(-70_000, 100));
            let tl = Point::new(at.0, at.1);
            match (idx / 2) % 3 {
                0 => check(ctx, Rectangle::new(tl, Size::new(w, h)), st),
                1 => check(ctx, Ellipse::new(tl, Size::new(w, h)), st),
                _ => {
                    let mut r = |rng: &mut Rng| Size::new(rng.u32r(0, w / 2), rng.u32r(0, h / 2 + 1));
                    let corners = CornerRadii { top_left: r(rng), top_right: r(rng), bottom_right: r(rng), bottom_left: r(rng) };
                    check(ctx, RoundedRectangle::new(Rectangle::new(tl, Size::new(w, h)), corners), st)
                }
            }
            ctx.count("shapes_with_a_side_beyond_16_bits", 1);
        });
        // inside strokes of extreme width (the "stroke fills the whole shape" idiom is u32::MAX): nothing
        // of the stroke lies outside the shape, so the areas stay small and can be compared point by point
        let ne = run.tier(1_200u64, 40_000u64);
        run.generate("inside-strokes-of-extreme-width", ne, false, 0.3, |ctx, idx, rng| {
            const W: [u32; 12] = [u32::MAX, u32::MAX - 1, u32::MAX - 6, u32::MAX - 40_000, 0xC000_0000, 3_000_000_000, 0x8000_0001, 0x8000_0000, 0x7FFF_FFFF, 0x7FFF_FFFE, 0x4000_0000, 70_000];
            let width = if rng.chance(1, 6) { u32::MAX - rng.u32r(0, 50_000) } else { W[(idx % 12) as usize] };
            let colours = [(Some(1u32), Some(2u32)), (None, Some(2)), (Some(1), None), (Some(3), Some(3))][((idx / 12) % 4) as usize];
            let st = StyleD { fill: colours.0, stroke: colours.1, width, align: 0, dotted: false };
            let (w, h) = (rng.u32r(0, 26), rng.u32r(0, 26));
            match (idx / 48) % 4 {
                0 => check(ctx, Rectangle::new(pos(rng), Size::new(w, h)), st),
                1 => check(ctx, Circle::new(pos(rng), w), st),
                2 => check(ctx, Ellipse::new(pos(rng), Size::new(w, h)), st),
                _ => {
                    let mut r = |rng: &mut Rng| Size::new(rng.u32r(0, w), rng.u32r(0, h));
                    let corners = CornerRadii { top_left: r(rng), top_right: r(rng), bottom_right: r(rng), bottom_left: r(rng) };
                    check(ctx, RoundedRectangle::new(Rectangle::new(pos(rng), Size::new(w, h)), corners), st)
                }
            }
        });
        let rr = run.tier(150_000u64, 3_000_000u64);
        run.generate("rounded-rectangle-random-radii", rr, false, 0.4, |ctx, idx, rng| {
            let (st, _) = style_at(idx % styles, widths);
            let (w, h) = (rng.u32r(0, 24), rng.u32r(0, 34));
            let oversized = rng.chance(1, 3);
            let mut r = |rng: &mut Rng| match rng.below(4) {
                0 => Size::zero(),
                _ if oversized => Size::new(rng.u32r(0, w * 3 + 2), rng.u32r(0, h * 3 + 2)),
                _ => Size::new(rng.u32r(0, w / 2), rng.u32r(0, h / 2)),
            };
            let corners = CornerRadii { top_left: r(rng), top_right: r(rng), bottom_right: r(rng), bottom_left: r(rng) };
            check(ctx, RoundedRectangle::new(Rectangle::new(pos(rng), Size::new(w, h)), corners), st);
        });
    })
}
