//! C11 — raw pixel load/store and iteration round-trip in both data orders.
//! Reference model: independent encoder of the two documented layouts.
use egmon::{jobj, main_with, rng::mix, Ctx, Rng, Run};
use embedded_graphics::{
    iterator::raw::RawDataSlice,
    pixelcolor::raw::{BigEndianLsb0, DataOrder, LittleEndianMsb0, RawData, RawU1, RawU16, RawU2, RawU24, RawU32, RawU4, RawU8},
};

/// documented layout: LittleEndianMsb0 = little-endian bytes, most significant bits first for
/// sub-byte pixels; BigEndianLsb0 = big-endian bytes, least significant bits first.
/// Returns false (buffer untouched) when pixel `i` does not fit.
fn model_store(buf: &mut [u8], bpp: u32, alt: bool, i: usize, v: u32) -> bool {
    if bpp < 8 {
        let ppb = (8 / bpp) as usize;
        let byte = i / ppb;
        if byte >= buf.len() {
            return false;
        }
        let slot = i % ppb;
        let pos = (if alt { slot } else { ppb - 1 - slot }) as u32 * bpp;
        let mask = (((1u32 << bpp) - 1) << pos) as u8;
        buf[byte] = (buf[byte] & !mask) | (((v << pos) as u8) & mask);
        true
    } else {
        let n = (bpp / 8) as usize;
        let Some(start) = i.checked_mul(n) else {
            return false;
        };
        let Some(end) = start.checked_add(n) else {
            return false;
        };
        if end > buf.len() {
            return false;
        }
        for k in 0..n {
            let byte = if alt { (v >> (8 * (n - 1 - k))) as u8 } else { (v >> (8 * k)) as u8 };
            buf[start + k] = byte;
        }
        true
    }
}

fn model_load(buf: &[u8], bpp: u32, alt: bool, i: usize) -> Option<u32> {
    if bpp < 8 {
        let ppb = (8 / bpp) as usize;
        let byte = i / ppb;
        let b = *buf.get(byte)? as u32;
        let slot = i % ppb;
        let pos = (if alt { slot } else { ppb - 1 - slot }) as u32 * bpp;
        Some((b >> pos) & ((1 << bpp) - 1))
    } else {
        let n = (bpp / 8) as usize;
        let start = i.checked_mul(n)?;
        let end = start.checked_add(n)?;
        if end > buf.len() {
            return None;
        }
        let mut v = 0u32;
        for k in 0..n {
            let byte = buf[start + k] as u32;
            if alt {
                v = (v << 8) | byte;
            } else {
                v |= byte << (8 * k);
            }
        }
        Some(v)
    }
}

fn pixel_count(len: usize, bpp: u32) -> usize {
    len * 8 / bpp as usize
}

const BACKGROUNDS: [u8; 3] = [0x00, 0xFF, 0xA5];

fn background(kind: usize, len: usize, rng: &mut Rng) -> Vec<u8> {
    if kind < BACKGROUNDS.len() {
        vec![BACKGROUNDS[kind]; len]
    } else {
        rng.bytes(len)
    }
}

fn tname<R: RawData, O: DataOrder>() -> String {
    format!("RawU{}/{}", R::BITS_PER_PIXEL, if O::IS_ALTERNATE_ORDER { "BigEndianLsb0" } else { "LittleEndianMsb0" })
}

fn check_store_load<R, O>(ctx: &mut Ctx, bg: &[u8], i: usize, v: u32)
where
    R: RawData + Copy + PartialEq + core::fmt::Debug,
    R::Storage: Into<u32>,
    O: DataOrder,
{
    ctx.eval();
    let bpp = R::BITS_PER_PIXEL as u32;
    let alt = O::IS_ALTERNATE_ORDER;
    let name = tname::<R, O>();
    let case = || format!("{} buffer {:02x?} index {} value {:#x}", name, bg, i, v);
    let raw = R::from_u32(v);
    // a raw value only has BITS_PER_PIXEL bits, however it was constructed: from_u32 with upper bits
    // set (documented: "only the least significant bits are used") is the same value, stores the
    // same bits and loads back equal to itself
    if bpp < 32 {
        let mask = (1u32 << bpp) - 1;
        for high in [!mask, 1u32 << bpp] {
            let noisy = R::from_u32((v & mask) | high);
            let inner: u32 = noisy.into_inner().into();
            if noisy != R::from_u32(v & mask) || inner > mask {
                ctx.violation(format!("{}|from_u32-keeps-bits-beyond-the-pixel", name), case, || format!("from_u32({:#x}) = {:?} (inner {:#x}), from_u32({:#x}) = {:?}", (v & mask) | high, noisy, inner, v & mask, R::from_u32(v & mask)));
                return;
            }
        }
    }
    let v: u32 = raw.into_inner().into();
    let mut buf = bg.to_vec();
    let mut want = bg.to_vec();
    let fits = model_store(&mut want, bpp, alt, i, v);
    let r = raw.store::<O>(&mut buf, i);
    if fits {
        if r.is_err() {
            ctx.violation(format!("{}|store-rejects-valid-index", name), case, || "store returned Err".into());
            return;
        }
        if buf != want {
            let only_own_bits = {
                // did bits outside pixel i change?
                let mut probe = buf.clone();
                model_store(&mut probe, bpp, alt, i, model_load(bg, bpp, alt, i).unwrap_or(0));
                probe == bg
            };
            let sig = if bpp > 8 && only_own_bits { "store-wrong-byte-order" } else if only_own_bits { "store-wrong-bits-within-pixel" } else { "store-touches-other-pixels" };
            ctx.violation(format!("{}|{}", name, sig), case, || format!("buffer after store {:02x?}, documented layout {:02x?}", buf, want));
        }
        let l = R::load::<O>(&buf, i);
        if l != Some(raw) {
            ctx.violation(format!("{}|load-after-store", name), case, || format!("load = {:?} expected {:?} (buffer {:02x?})", l, raw, buf));
        }
    } else {
        if r.is_ok() {
            ctx.violation(format!("{}|store-accepts-out-of-range-index", name), case, || "store returned Ok".into());
        }
        if buf != bg {
            ctx.violation(format!("{}|out-of-range-store-modifies-buffer", name), case, || format!("buffer after store {:02x?}", buf));
        }
        let l = R::load::<O>(&buf, i);
        if l.is_some() {
            ctx.violation(format!("{}|load-accepts-out-of-range-index", name), case, || format!("load = {:?}", l));
        }
    }
    // load agrees with the documented layout on the untouched background as well
    let l0 = R::load::<O>(bg, i).map(|r| r.into_inner().into());
    let w0 = model_load(bg, bpp, alt, i);
    if l0 != w0 {
        ctx.violation(format!("{}|load-layout", name), case, || format!("load(background) = {:?} expected {:?}", l0, w0));
    }
}

fn values_for(bpp: u32, rng: &mut Rng, quick: bool) -> Vec<u32> {
    if bpp <= 8 {
        (0..(1u32 << bpp)).collect()
    } else if bpp == 16 {
        if quick {
            // every value of each byte against 6 settings of the other byte, plus random
            let mut v = Vec::new();
            for b in 0..=255u32 {
                for o in [0u32, 0xFF, 0xA5, 0x5A, 0x01, 0x80] {
                    v.push((b << 8) | o);
                    v.push((o << 8) | b);
                }
            }
            for _ in 0..512 {
                v.push(rng.next_u32() & 0xFFFF);
            }
            v
        } else {
            (0..=0xFFFFu32).collect()
        }
    } else {
        let mask = if bpp == 32 { u32::MAX } else { (1 << bpp) - 1 };
        let mut v = vec![0, 1, mask, mask - 1, 0x0102_0304 & mask, 0xA1B2_C3D4 & mask, 0x8000_0000 & mask, 0x0080_0000 & mask, 0x00FF_0000 & mask, 0xFF00_00FF & mask, 0x0000_FF00];
        for k in 0..bpp {
            v.push(1 << k);
        }
        let n = if quick { 256 } else { 65536 };
        for _ in 0..n {
            v.push(rng.next_u32() & mask);
        }
        v
    }
}

fn sweep<R, O>(run: &Run, max_len: usize, type_name: &'static str, documented_bits: usize)
where
    R: RawData + Copy + PartialEq + core::fmt::Debug + Send + Sync,
    R::Storage: Into<u32>,
    O: DataOrder,
{
    // the width the type's name and documentation promise; everything below models the layout with
    // the library's constant, so a disagreement is reported here and the sweep for the type is skipped
    if !O::IS_ALTERNATE_ORDER || run.cli.replay.is_some() {
        let mut consistent = true;
        let gen_w: &'static str = Box::leak(format!("{}-documented-width", type_name).into_boxed_str());
        run.section(gen_w, |ctx| {
            ctx.eval();
            ctx.nontrivial(egmon::rng::hash_str(gen_w));
            if R::BITS_PER_PIXEL != documented_bits {
                consistent = false;
                ctx.violation(format!("{}|bits-per-pixel", type_name), || format!("{}::BITS_PER_PIXEL", type_name), || format!("{} instead of the documented {}", R::BITS_PER_PIXEL, documented_bits));
            }
        });
        if !consistent {
            return;
        }
    } else if R::BITS_PER_PIXEL != documented_bits {
        return;
    }
    let bpp = R::BITS_PER_PIXEL as u32;
    let name: &'static str = Box::leak(tname::<R, O>().into_boxed_str());
    let gen_store: &'static str = Box::leak(format!("{}-store-load", name).into_boxed_str());
    // case space: buffer length x index x background
    let mut cases: Vec<(usize, usize, usize)> = Vec::new();
    let mut lens: Vec<usize> = (0..=max_len).collect();
    // longer buffers: indices and byte offsets beyond 255
    lens.extend([255usize, 256, 257, 600]);
    for len in lens {
        let n = pixel_count(len, bpp);
        let mut idxs: Vec<usize> = if len <= max_len { (0..n + 4).collect() } else { vec![0, 1, 127, 128, 254, 255, 256, 257, 258, n / 2, n.saturating_sub(2), n.saturating_sub(1), n, n + 1, n + 3] };
        idxs.extend([n + 17, usize::MAX / 8, usize::MAX / 4 + 1, usize::MAX / 2 + 1, usize::MAX - 1, usize::MAX]);
        // indices whose byte offset index * bytes_per_pixel wraps around to a small value
        for bytes in [2u128, 3, 4] {
            for k in 1..bytes {
                let base = (((k << 64) + bytes - 1) / bytes) as usize;
                idxs.extend([base.wrapping_sub(2), base.wrapping_sub(1), base, base + 1, base + 2]);
            }
            // ... and the last indices whose byte offset still fits (offset + pixel size overflows)
            let last = (usize::MAX as u128 / bytes) as usize;
            idxs.extend([last - 1, last, last.wrapping_add(1)]);
        }
        idxs.extend([usize::MAX / 2 - 1, usize::MAX / 2, usize::MAX / 8 * 8 - 1, usize::MAX / 8 - 1]);
        for i in idxs {
            for bg in 0..4 {
                cases.push((len, i, bg));
            }
        }
    }
    let quick = run.quick();
    run.generate(gen_store, cases.len() as u64, false, 0.2, |ctx, idx, rng| {
        let (len, i, bgk) = cases[idx as usize];
        let bg = background(bgk, len, rng);
        let vals = values_for(bpp, rng, quick);
        if ctx.wants_sample() {
            let mut b = bg.clone();
            let r = R::from_u32(vals[vals.len() / 2]).store::<O>(&mut b, i).is_ok();
            ctx.sample(|| jobj! {"type" => name, "buffer" => format!("{:02x?}", bg), "index" => i as u64, "value" => format!("{:#x}", vals[vals.len()/2]), "store_ok" => r, "after" => format!("{:02x?}", b)});
        }
        let fits = i < pixel_count(len, bpp);
        for &v in &vals {
            check_store_load::<R, O>(ctx, &bg, i, v);
        }
        if fits {
            ctx.nontrivial(mix(mix(egmon::rng::hash_str(name), idx), 1));
            ctx.count("store_load_pairs_in_range", vals.len() as u64);
        } else {
            ctx.count("store_load_pairs_out_of_range", vals.len() as u64);
        }
    });

    // iteration: items, positions after mixes of next()/nth(k), size_hint
    let gen_iter: &'static str = Box::leak(format!("{}-iterate", name).into_boxed_str());
    let n_iter = run.tier(400u64, 200_000u64);
    run.generate(gen_iter, n_iter, false, 0.2, |ctx, idx, rng| {
        let len = if idx <= max_len as u64 { idx as usize } else { rng.usizer(0, max_len + 6) };
        let data = rng.bytes(len);
        let count = pixel_count(len, bpp);
        let case = |extra: &str| format!("{} data {:02x?} {}", name, data, extra);
        // (a) plain iteration equals load(0), load(1), ...
        ctx.eval();
        let items: Vec<u32> = RawDataSlice::<R, O>::new(&data).into_iter().take(count + 8).map(|r| r.into_inner().into()).collect();
        let want: Vec<u32> = (0..count).map(|i| model_load(&data, bpp, O::IS_ALTERNATE_ORDER, i).unwrap()).collect();
        if items != want {
            ctx.violation(format!("{}|iteration-differs-from-load", name), || case(""), || format!("iterator yields {} items {:x?}, expected {} items {:x?}", items.len(), &items[..items.len().min(12)], want.len(), &want[..want.len().min(12)]));
        }
        // the same sequence through count / last / fold / for_each / nth / skip, from partly consumed states
        if items == want {
            let reference: Vec<R> = want.iter().map(|v| R::from_u32(*v)).collect();
            let n = reference.len();
            if let Some(d) = egmon::target::consumer_disagreement(&|| RawDataSlice::<R, O>::new(&data).into_iter(), &reference, &[0, 1, n / 2, n.saturating_sub(1), n, n + 1]) {
                ctx.violation(format!("{}|iterator-consumed-differently", name), || case(""), || d.clone());
            }
        }
        // an overshooting nth() with a huge argument exhausts the iterator for good, whichever way
        // the rest is consumed afterwards (from a fresh iterator and after one next())
        for huge in [usize::MAX, usize::MAX / 2, usize::MAX / 4, 1 << 63, 1 << 62, 1 << 61, (1 << 61) + 1, 1 << 60, (1 << 60) + 3, usize::MAX / (bpp.max(1) as usize), usize::MAX / 8 + 1] {
            for warm in [0usize, 1] {
                ctx.eval();
                let spent = || {
                    let mut it = RawDataSlice::<R, O>::new(&data).into_iter();
                    for _ in 0..warm {
                        it.next();
                    }
                    let r = it.nth(huge);
                    (it, r.is_some())
                };
                let mut wrong: Vec<String> = Vec::new();
                if spent().1 {
                    wrong.push("nth(huge) returns an item".into());
                }
                let c = spent().0.count();
                if c != 0 {
                    wrong.push(format!("count() = {}", c));
                }
                if spent().0.last().is_some() {
                    wrong.push("last() returns an item".into());
                }
                let mut folded = 0usize;
                spent().0.for_each(|_| folded += 1);
                if folded != 0 {
                    wrong.push(format!("for_each visits {} items", folded));
                }
                let sh = spent().0.size_hint();
                if sh != (0, Some(0)) {
                    wrong.push(format!("size_hint() = {:?}", sh));
                }
                let mut it = spent().0;
                if it.next().is_some() || it.nth(0).is_some() || it.nth(3).is_some() {
                    wrong.push("next()/nth() return an item".into());
                }
                if !wrong.is_empty() {
                    ctx.violation(format!("{}|iterator-not-exhausted-after-overshooting-nth", name), || case(&format!("{} x next(), then nth({:#x})", warm, huge)), || wrong.join("; "));
                    break;
                }
            }
        }
        for (i, w) in want.iter().enumerate() {
            let l: Option<u32> = R::load::<O>(&data, i).map(|r| r.into_inner().into());
            if l != Some(*w) {
                ctx.violation(format!("{}|load-layout", name), || case(&format!("index {}", i)), || format!("load = {:?} expected {:#x}", l, w));
                break;
            }
        }
        // (b) size_hint brackets the remaining items at every position of a plain iteration
        let mut it = RawDataSlice::<R, O>::new(&data).into_iter();
        for pos in 0..=count {
            ctx.eval();
            let (lo, hi) = it.size_hint();
            let remaining = count - pos;
            if lo > remaining || hi.map(|h| h < remaining).unwrap_or(false) {
                let kind = if lo == 0 && hi == Some(0) { "zero" } else { "wrong" };
                ctx.violation(format!("{}|size_hint-{}", name, kind), || case(&format!("after {} items", pos)), || format!("size_hint = ({}, {:?}) but {} items remain", lo, hi, remaining));
                break;
            }
            it.next();
        }
        // (c) random mix of next()/nth(k)
        ctx.eval();
        let mut it = RawDataSlice::<R, O>::new(&data).into_iter();
        let mut pos: usize = 0; // model position (usize::MAX = exhausted)
        let mut dead = false;
        let mut trace = String::new();
        for _step in 0..rng.usizer(1, 24) {
            let (got, want, op): (Option<u32>, Option<u32>, String) = if rng.chance(1, 2) {
                let g = it.next().map(|r| r.into_inner().into());
                let w = if dead || pos >= count { None } else { Some(want[pos]) };
                if w.is_some() {
                    pos += 1;
                } else {
                    dead = true;
                }
                (g, w, "next()".into())
            } else {
                let k = match rng.below(8) {
                    0 => 0,
                    1 => count,
                    2 => usize::MAX,
                    3 => usize::MAX / 2 + 3,
                    _ => rng.usizer(0, count / 2 + 2),
                };
                let g = it.nth(k).map(|r| r.into_inner().into());
                let target = pos.checked_add(k);
                let w = match target {
                    Some(t) if !dead && t < count => {
                        pos = t + 1;
                        Some(want[t])
                    }
                    _ => {
                        dead = true;
                        None
                    }
                };
                (g, w, format!("nth({})", k))
            };
            trace.push_str(&op);
            trace.push(' ');
            if got != want {
                ctx.violation(format!("{}|position-after-next-nth", name), || case(&format!("ops: {}", trace)), || format!("{} returned {:?}, expected {:?}", op, got, want));
                break;
            }
            {
                // also after the position moved past the end (then nothing remains)
                let (lo, hi) = it.size_hint();
                let remaining = if dead { 0 } else { count - pos };
                if lo > remaining || hi.map(|h| h < remaining).unwrap_or(false) {
                    let kind = if lo == 0 && hi == Some(0) { "zero" } else { "wrong" };
                    ctx.violation(format!("{}|size_hint-{}", name, kind), || case(&format!("ops: {}", trace)), || format!("size_hint = ({}, {:?}) but {} items remain", lo, hi, remaining));
                    break;
                }
            }
        }
        if count >= 2 {
            ctx.nontrivial(mix(egmon::rng::hash_str(name), mix(idx, 77)));
        }
        ctx.count("iterations_checked", 1);
        if ctx.wants_sample() {
            ctx.sample(|| jobj! {"type" => name, "data" => format!("{:02x?}", data), "items" => format!("{:x?}", want), "ops" => trace.clone()});
        }
    });

    // display-scale buffers (a 480 x 320 RGB888 image has 460 800 bytes): pixel counts, positions and
    // size hints far beyond the small sweeps above (added after seeded `C11-12`, a reciprocal
    // multiplication instead of `len / 3` that is exact below 131 072 bytes)
    let gen_large: &'static str = Box::leak(format!("{}-large-buffers", name).into_boxed_str());
    let mut big: Vec<usize> = Vec::new();
    for k in 10..=run.tier(21u32, 24u32) {
        for d in 0..4usize {
            big.push((1usize << k) + d);
            big.push((1usize << k) - 1 - d);
            big.push(3 * (1usize << k) / 2 + d);
        }
    }
    for (w, h) in [(128usize, 64usize), (240, 240), (320, 240), (480, 320), (512, 256), (640, 480), (800, 480), (1024, 600)] {
        for bytes in [1usize, 2, 3, 4] {
            for d in 0..3usize {
                big.push(w * h * bytes + d);
                big.push(w * h / 8 * bytes + d);
            }
        }
    }
    let fixed = big.len() as u64;
    let n_large = fixed + run.tier(150u64, 6000u64);
    let big_max = run.tier(1usize << 22, 1usize << 25);
    run.generate(gen_large, n_large, false, 0.15, |ctx, idx, rng| {
        let len = if idx < fixed { big[idx as usize] } else if rng.chance(1, 2) { rng.usizer(1000, 1 << 19) } else { rng.usizer(1 << 17, big_max) };
        let salt = rng.below(251) as usize;
        let data: Vec<u8> = (0..len).map(|i| (i.wrapping_mul(131).wrapping_add(i >> 8).wrapping_add(salt)) as u8).collect();
        let count = pixel_count(len, bpp);
        let case = |extra: &str| format!("{} buffer of {} bytes (byte i = (131 i + (i >> 8) + {}) mod 256) {}", name, len, salt, extra);
        let alt = O::IS_ALTERNATE_ORDER;
        let bracket = |sh: (usize, Option<usize>), remaining: usize| !(sh.0 > remaining || sh.1.map(|h| h < remaining).unwrap_or(false));
        ctx.eval();
        let sh = RawDataSlice::<R, O>::new(&data).into_iter().size_hint();
        if !bracket(sh, count) {
            ctx.violation(format!("{}|size_hint-wrong|large-buffer", name), || case("fresh iterator"), || format!("size_hint = {:?} but {} items remain", sh, count));
            return;
        }
        let mut positions: Vec<usize> = vec![0, 1, 255, 256, 2047, 2048, 2049, 4096, 65_535, 65_536, count / 3, count / 2, count.saturating_sub(3), count.saturating_sub(2), count.saturating_sub(1), count, count + 1];
        for _ in 0..6 {
            positions.push(rng.usizer(0, count + 2));
        }
        for &k in &positions {
            ctx.eval();
            let l: Option<u32> = R::load::<O>(&data, k).map(|r| r.into_inner().into());
            let w = model_load(&data, bpp, alt, k);
            if l != w {
                ctx.violation(format!("{}|load-layout|large-buffer", name), || case(&format!("index {}", k)), || format!("load = {:x?} expected {:x?}", l, w));
                return;
            }
            let mut it = RawDataSlice::<R, O>::new(&data).into_iter();
            let g: Option<u32> = it.nth(k).map(|r| r.into_inner().into());
            if g != w {
                ctx.violation(format!("{}|position-after-next-nth|large-buffer", name), || case(&format!("nth({}) on a fresh iterator", k)), || format!("returned {:x?}, expected {:x?}", g, w));
                return;
            }
            let remaining = if k < count { count - k - 1 } else { 0 };
            let sh = it.size_hint();
            if !bracket(sh, remaining) {
                ctx.violation(format!("{}|size_hint-wrong|large-buffer", name), || case(&format!("after nth({})", k)), || format!("size_hint = {:?} but {} items remain", sh, remaining));
                return;
            }
            let g2: Option<u32> = it.next().map(|r| r.into_inner().into());
            let w2 = if k < count { model_load(&data, bpp, alt, k + 1) } else { None };
            if g2 != w2 {
                ctx.violation(format!("{}|position-after-next-nth|large-buffer", name), || case(&format!("nth({}), next()", k)), || format!("returned {:x?}, expected {:x?}", g2, w2));
                return;
            }
            // a long skip from a partly consumed iterator: 1..=3 x next(), then nth(k) (seeded `C09-15`:
            // skips of 2048 items and more re-base the slice and forget the items already consumed)
            for warm in 1..=3usize {
                let mut it = RawDataSlice::<R, O>::new(&data).into_iter();
                for _ in 0..warm {
                    it.next();
                }
                let g: Option<u32> = it.nth(k).map(|r| r.into_inner().into());
                let w = if warm <= count { model_load(&data, bpp, alt, warm + k) } else { None };
                if g != w {
                    ctx.violation(format!("{}|position-after-next-nth|large-buffer", name), || case(&format!("{} x next(), then nth({})", warm, k)), || format!("returned {:x?}, expected {:x?}", g, w));
                    return;
                }
                let g2: Option<u32> = it.next().map(|r| r.into_inner().into());
                let w2 = if w.is_some() { model_load(&data, bpp, alt, warm + k + 1) } else { None };
                if g2 != w2 {
                    ctx.violation(format!("{}|position-after-next-nth|large-buffer", name), || case(&format!("{} x next(), nth({}), next()", warm, k)), || format!("returned {:x?}, expected {:x?}", g2, w2));
                    return;
                }
            }
            // the tail seen through count() and last() (bounded: at most 4096 items from the end)
            if k < count && count - k <= 4096 {
                let positioned = || {
                    let mut it = RawDataSlice::<R, O>::new(&data).into_iter();
                    if k > 0 {
                        it.nth(k - 1);
                    }
                    it
                };
                let c: usize = positioned().count();
                let la: Option<u32> = positioned().last().map(|r| r.into_inner().into());
                if c != count - k || la != model_load(&data, bpp, alt, count - 1) {
                    ctx.violation(format!("{}|iterator-consumed-differently|large-buffer", name), || case(&format!("positioned before item {}", k)), || format!("count() = {} (expected {}), last() = {:x?} (expected {:x?})", c, count - k, la, model_load(&data, bpp, alt, count - 1)));
                    return;
                }
            }
        }
        // store near the end and just beyond
        for &k in &[count.saturating_sub(1), count, count / 2] {
            ctx.eval();
            let mut b = data.clone();
            let v = rng.next_u32();
            let ok = R::from_u32(v).store::<O>(&mut b, k).is_ok();
            let mut m = data.clone();
            let mok = model_store(&mut m, bpp, alt, k, v & (if bpp >= 32 { u32::MAX } else { (1u32 << bpp) - 1 }));
            if ok != mok || b != m {
                let diff = b.iter().zip(m.iter()).position(|(a, c)| a != c);
                ctx.violation(format!("{}|store-layout|large-buffer", name), || case(&format!("store {:#x} at index {}", v, k)), || format!("store ok = {} (expected {}), first differing byte {:?}", ok, mok, diff));
                return;
            }
        }
        ctx.nontrivial(mix(egmon::rng::hash_str(gen_large), len as u64));
        ctx.count("large_buffers_checked", 1);
        ctx.count("large_buffer_bytes", len as u64);
        if ctx.wants_sample() {
            ctx.sample(|| jobj! {"type" => name, "buffer_bytes" => len as u64, "pixels" => count as u64, "size_hint" => format!("{:?}", sh)});
        }
    });

    // more than 2^32 pixels (a zeroed allocation is mapped lazily, only the pages that are read or
    // written exist): positions beyond 32 bits (seeded `C11-13`: the iterator's position kept in a
    // saturating u32). Sub-byte types only - 512 MiB (1 bit), 1 GiB (2 bits), 2 GiB (4 bits) of address space.
    if bpp <= run.tier(2u32, 4u32) {
        let gen_giga: &'static str = Box::leak(format!("{}-more-than-2^32-pixels", name).into_boxed_str());
        run.generate(gen_giga, 1, false, 0.05, |ctx, _idx, rng| {
            let ppb = (8 / bpp) as usize;
            let len = (1usize << 32) / ppb + 8 + rng.usizer(0, 8);
            // (allocated directly so that a refused allocation is an observation, not an abort)
            let layout = std::alloc::Layout::array::<u8>(len).unwrap();
            let ptr = unsafe { std::alloc::alloc_zeroed(layout) };
            if ptr.is_null() {
                ctx.count("skipped_because_the_allocation_was_refused", 1);
                ctx.nontrivial(1);
                ctx.nontrivial(2);
                return;
            }
            let mut data: Vec<u8> = unsafe { Vec::from_raw_parts(ptr, len, len) };
            let count = pixel_count(len, bpp);
            // a recognisable pattern in the last 16 bytes and around the 2^32-th pixel
            for (k, b) in data[len - 16..].iter_mut().enumerate() {
                *b = 0x35u8.wrapping_mul(k as u8 + 3) | 1;
            }
            let mid = (1usize << 32) / ppb;
            for k in 0..6 {
                data[mid - 3 + k] = 0xC5u8.wrapping_add(41 * k as u8) | 0x10;
            }
            let alt = O::IS_ALTERNATE_ORDER;
            let case = |extra: &str| format!("{} zeroed buffer of {} bytes ({} pixels) with a pattern in bytes {}..{} and the last 16 bytes, {}", name, len, count, mid - 3, mid + 3, extra);
            let two32 = 1usize << 32;
            let positions = [two32 - 2, two32 - 1, two32, two32 + 1, two32 + 3, count - 9, count - 2, count - 1, count, count + 1, u32::MAX as usize - 1, u32::MAX as usize];
            for &k in &positions {
                ctx.eval();
                let w = model_load(&data, bpp, alt, k);
                let l: Option<u32> = R::load::<O>(&data, k).map(|r| r.into_inner().into());
                if l != w {
                    ctx.violation(format!("{}|load-layout|beyond-2^32", name), || case(&format!("load at index {}", k)), || format!("load = {:x?} expected {:x?}", l, w));
                    return;
                }
                let mut it = RawDataSlice::<R, O>::new(&data).into_iter();
                let g: Option<u32> = it.nth(k).map(|r| r.into_inner().into());
                if g != w {
                    ctx.violation(format!("{}|position-after-next-nth|beyond-2^32", name), || case(&format!("nth({}) on a fresh iterator", k)), || format!("returned {:x?}, expected {:x?}", g, w));
                    return;
                }
                // three more steps from there, and the size hint
                for step in 1..=3usize {
                    let g: Option<u32> = it.next().map(|r| r.into_inner().into());
                    let w = if k < count { model_load(&data, bpp, alt, k + step) } else { None };
                    if g != w {
                        ctx.violation(format!("{}|position-after-next-nth|beyond-2^32", name), || case(&format!("nth({}), then {} x next()", k, step)), || format!("returned {:x?}, expected {:x?}", g, w));
                        return;
                    }
                }
                let remaining = count.saturating_sub(k + 4);
                let (lo, hi) = it.size_hint();
                if lo > remaining || hi.map(|h| h < remaining).unwrap_or(false) {
                    ctx.violation(format!("{}|size_hint-wrong|beyond-2^32", name), || case(&format!("after nth({}) and 3 x next()", k)), || format!("size_hint = ({}, {:?}) but {} items remain", lo, hi, remaining));
                    return;
                }
            }
            // reaching the same position in two hops
            ctx.eval();
            let mut it = RawDataSlice::<R, O>::new(&data).into_iter();
            it.nth(u32::MAX as usize - 5);
            let g: Option<u32> = it.nth(10).map(|r| r.into_inner().into());
            let w = model_load(&data, bpp, alt, u32::MAX as usize - 5 + 1 + 10);
            if g != w {
                ctx.violation(format!("{}|position-after-next-nth|beyond-2^32", name), || case("nth(2^32 - 6), nth(10)"), || format!("returned {:x?}, expected {:x?}", g, w));
                return;
            }
            // store beyond 2^32
            ctx.eval();
            let k = two32 + 5;
            let v = (1u32 << bpp) - 1;
            let before = data[k / ppb];
            let ok = R::from_u32(v).store::<O>(&mut data, k).is_ok();
            let after: Option<u32> = R::load::<O>(&data, k).map(|r| r.into_inner().into());
            if !ok || after != Some(v) {
                ctx.violation(format!("{}|store-layout|beyond-2^32", name), || case(&format!("store {:#x} at index {}", v, k)), || format!("store ok = {}, byte {:#x} -> {:#x}, load afterwards {:x?}", ok, before, data[k / ppb], after));
                return;
            }
            ctx.nontrivial(mix(egmon::rng::hash_str(gen_giga), len as u64));
            ctx.nontrivial(mix(egmon::rng::hash_str(gen_giga), 1));
            ctx.count("buffers_with_more_than_2^32_pixels", 1);
        });
    }
}

fn main() {
    main_with("c11", "exploration", |run| {
        run.set_rule(
            "7 raw types x 2 data orders x buffer lengths 0..=L x every index up to beyond the end (plus huge indices up to usize::MAX) x backgrounds {00,FF,A5,random} x values \
             (all values up to 8 bits; 16 bits: byte-wise exhaustive + random in quick, all 65536 in thorough; 24/32 bits: boundary, single-bit and random values); iterator: random byte strings, \
             plain iteration, size_hint at every position, random mixes of next()/nth(k) incl. k = usize::MAX. Non-trivial = the index addresses a pixel inside the buffer / the iterator has >= 2 items; \
             distinct = distinct (type, order, length, index, background) resp. (type, order, data) cases.",
        );
        run.assume("layout model written from the documentation: LittleEndianMsb0 = little-endian bytes + MSB-first sub-byte pixels, BigEndianLsb0 = big-endian bytes + LSB-first sub-byte pixels");
        let max_len = run.tier(9usize, 13usize);
        macro_rules! both {
            ($r:ident, $bits:expr) => {
                sweep::<$r, LittleEndianMsb0>(run, max_len, stringify!($r), $bits);
                sweep::<$r, BigEndianLsb0>(run, max_len, stringify!($r), $bits);
            };
        }
        both!(RawU1, 1);
        both!(RawU2, 2);
        both!(RawU4, 4);
        both!(RawU8, 8);
        both!(RawU16, 16);
        both!(RawU24, 24);
        both!(RawU32, 32);
    })
}
