//! C18 — curved primitives match their mathematical shapes and each other.
//! Exact (circle) and f64 (ellipse, corners, angles; with guard bands) geometric oracles plus
//! equivalence relations between primitives. Built and run for both arithmetic back-ends.
use egmon::{
    geom::{dist_point_ray, in_sweep, signed_dist_point_ellipse},
    jobj, main_with,
    rng::mix,
    target::FastSet,
    zoo, Ctx, Rng, Run,
};
use embedded_graphics::{
    geometry::AngleUnit,
    prelude::*,
    primitives::{Arc, Circle, ContainsPoint, CornerRadii, Ellipse, OffsetOutline, PointsIter, Rectangle, RoundedRectangle, Sector},
};

const GUARD: f64 = 1e-6;

fn set_of<I: Iterator<Item = Point>>(it: I, budget: usize) -> FastSet<(i32, i32)> {
    it.take(budget).map(|p| (p.x, p.y)).collect()
}

/// every row and column of the set is one contiguous run
fn runs_contiguous(set: &FastSet<(i32, i32)>, bb: &Rectangle) -> Option<String> {
    let (x0, y0, w, h) = (bb.top_left.x, bb.top_left.y, bb.size.width as i32, bb.size.height as i32);
    for y in y0..y0 + h {
        let mut state = 0; // 0 before, 1 inside, 2 after
        for x in x0..x0 + w {
            let c = set.contains(&(x, y));
            match (state, c) {
                (0, true) => state = 1,
                (1, false) => state = 2,
                (2, true) => return Some(format!("row y={} has more than one run (second run starts at x={})", y, x)),
                _ => {}
            }
        }
    }
    for x in x0..x0 + w {
        let mut state = 0;
        for y in y0..y0 + h {
            let c = set.contains(&(x, y));
            match (state, c) {
                (0, true) => state = 1,
                (1, false) => state = 2,
                (2, true) => return Some(format!("column x={} has more than one run (second run starts at y={})", x, y)),
                _ => {}
            }
        }
    }
    None
}

fn check_circle(ctx: &mut Ctx, tl: Point, d: u32) {
    ctx.eval();
    let c = Circle::new(tl, d);
    let bb = c.bounding_box();
    let case = || format!("Circle {{ top_left: ({},{}), diameter: {} }}", tl.x, tl.y, d);
    let set = set_of(c.points(), (d as usize + 2) * (d as usize + 2));
    let dd = d as i64;
    // band test in doubled coordinates: pixel centre offset from the circle centre = (2x+1) - (2tl+d)
    for y in tl.y - 2..tl.y + d as i32 + 2 {
        for x in tl.x - 2..tl.x + d as i32 + 2 {
            let px = (2 * (x - tl.x) as i64 + 1) - dd;
            let py = (2 * (y - tl.y) as i64 + 1) - dd;
            let r2 = px * px + py * py;
            let inside = c.contains(Point::new(x, y));
            if d >= 1 && r2 < (dd - 1) * (dd - 1) && !inside {
                ctx.violation("circle|point-deep-inside-not-included", case, || format!("({},{}) is {:.3} px inside the ideal circle", x, y, (dd as f64 - (r2 as f64).sqrt()) / 2.0));
                return;
            }
            if r2 > (dd + 1) * (dd + 1) && inside {
                ctx.violation("circle|point-far-outside-included", case, || format!("({},{}) is {:.3} px outside the ideal circle", x, y, ((r2 as f64).sqrt() - dd as f64) / 2.0));
                return;
            }
            // mirror symmetry about both centre lines
            let (mx, my) = (2 * tl.x + d as i32 - 1 - x, 2 * tl.y + d as i32 - 1 - y);
            if inside != c.contains(Point::new(mx, y)) || inside != c.contains(Point::new(x, my)) {
                ctx.violation("circle|not-mirror-symmetric", case, || format!("contains(({},{})) differs from its mirror image", x, y));
                return;
            }
        }
    }
    if let Some(e) = runs_contiguous(&set, &bb) {
        ctx.violation("circle|row-or-column-not-one-run", case, || e);
    }
    // touches all four sides of its bounding box
    if d >= 1 {
        let (x0, y0, x1, y1) = (tl.x, tl.y, tl.x + d as i32 - 1, tl.y + d as i32 - 1);
        let t = [set.iter().any(|p| p.0 == x0), set.iter().any(|p| p.1 == y0), set.iter().any(|p| p.0 == x1), set.iter().any(|p| p.1 == y1)];
        if t.iter().any(|b| !b) {
            ctx.violation("circle|does-not-touch-all-sides", case, || format!("touches left/top/right/bottom: {:?}", t));
        }
    }
    // circle == ellipse with equal axes
    let e = set_of(Ellipse::new(tl, Size::new(d, d)).points(), (d as usize + 2) * (d as usize + 2));
    if e != set {
        ctx.violation("circle|differs-from-ellipse-with-equal-axes", case, || format!("{} vs {} points", set.len(), e.len()));
    }
    // sector / arc sweeping >= 360 degrees
    for sweep in [360.0f32, -360.0, 400.0, -725.5] {
        let start = 37.0f32;
        let s = set_of(Sector::new(tl, d, start.deg(), sweep.deg()).points(), (d as usize + 2) * (d as usize + 2));
        if s != set {
            ctx.violation("sector|full-sweep-differs-from-circle", case, || format!("sweep {}: {} vs {} points", sweep, s.len(), set.len()));
            break;
        }
        let inner = set_of(c.offset(-1).points(), (d as usize + 2) * (d as usize + 2));
        let ring: FastSet<(i32, i32)> = set.difference(&inner).copied().collect();
        let a = set_of(Arc::new(tl, d, start.deg(), sweep.deg()).points(), (d as usize + 2) * (d as usize + 2));
        if a != ring {
            ctx.violation("arc|full-sweep-differs-from-one-pixel-ring", case, || format!("sweep {}: arc {} points, circle minus circle.offset(-1) {} points", sweep, a.len(), ring.len()));
            break;
        }
    }
    ctx.count("circle_points", set.len() as u64);
    if d >= 3 {
        ctx.nontrivial(mix(d as u64, mix(tl.x as u64, tl.y as u64)) ^ 0xC1);
    }
}

fn check_ellipse(ctx: &mut Ctx, tl: Point, w: u32, h: u32) {
    ctx.eval();
    let e = Ellipse::new(tl, Size::new(w, h));
    let bb = e.bounding_box();
    let case = || format!("Ellipse {{ top_left: ({},{}), size: {}x{} }}", tl.x, tl.y, w, h);
    let set = set_of(e.points(), (w as usize + 2) * (h as usize + 2));
    let (a, b) = (w as f64 / 2.0, h as f64 / 2.0);
    for y in tl.y - 1..tl.y + h as i32 + 1 {
        for x in tl.x - 1..tl.x + w as i32 + 1 {
            let inside = e.contains(Point::new(x, y));
            if w > 0 && h > 0 {
                // pixel centre relative to the ellipse centre
                let px = (x - tl.x) as f64 + 0.5 - a;
                let py = (y - tl.y) as f64 + 0.5 - b;
                let sd = signed_dist_point_ellipse(a, b, px, py);
                if sd < -0.5 - GUARD && !inside {
                    ctx.violation("ellipse|point-deep-inside-not-included", case, || format!("({},{}) is {:.3} px inside the ideal ellipse", x, y, -sd));
                    return;
                }
                if sd > 0.5 + GUARD && inside {
                    ctx.violation("ellipse|point-far-outside-included", case, || format!("({},{}) is {:.3} px outside the ideal ellipse", x, y, sd));
                    return;
                }
            } else if inside {
                ctx.violation("ellipse|zero-sized-contains-point", case, || format!("({},{})", x, y));
                return;
            }
            let (mx, my) = (2 * tl.x + w as i32 - 1 - x, 2 * tl.y + h as i32 - 1 - y);
            if inside != e.contains(Point::new(mx, y)) || inside != e.contains(Point::new(x, my)) {
                ctx.violation("ellipse|not-mirror-symmetric", case, || format!("contains(({},{})) differs from its mirror image", x, y));
                return;
            }
        }
    }
    if let Some(er) = runs_contiguous(&set, &bb) {
        ctx.violation("ellipse|row-or-column-not-one-run", case, || er);
    }
    // rounded rectangle with even sides and every radius half a side == ellipse
    if w % 2 == 0 && h % 2 == 0 {
        let rr = RoundedRectangle::with_equal_corners(Rectangle::new(tl, Size::new(w, h)), Size::new(w / 2, h / 2));
        let rs = set_of(rr.points(), (w as usize + 2) * (h as usize + 2));
        if rs != set {
            ctx.violation("rounded_rectangle|half-side-radii-differ-from-ellipse", case, || format!("{} vs {} points", rs.len(), set.len()));
        }
    }
    ctx.count("ellipse_points", set.len() as u64);
    if w >= 3 && h >= 3 && w != h {
        ctx.nontrivial(mix(((w as u64) << 20) | h as u64, mix(tl.x as u64, tl.y as u64)) ^ 0xE1);
    }
}

fn check_rounded(ctx: &mut Ctx, rect: Rectangle, corners: CornerRadii) {
    ctx.eval();
    let rr = RoundedRectangle::new(rect, corners);
    let (w, h) = (rect.size.width, rect.size.height);
    let case = || format!("{:?}", rr);
    // confined radii never add up to more than the side they share
    let c = rr.confine_radii().corners;
    let sums = [(c.top_left.width + c.top_right.width, w), (c.bottom_left.width + c.bottom_right.width, w), (c.top_left.height + c.bottom_left.height, h), (c.top_right.height + c.bottom_right.height, h)];
    if sums.iter().any(|(s, side)| s > side) {
        ctx.violation("rounded_rectangle|confined-radii-exceed-side", case, || format!("confined radii {:?}: sums/sides (top, bottom, left, right) {:?}", c, sums));
        return;
    }
    // radii that already fit are not changed
    let fits = corners.top_left.width + corners.top_right.width <= w && corners.bottom_left.width + corners.bottom_right.width <= w && corners.top_left.height + corners.bottom_left.height <= h && corners.top_right.height + corners.bottom_right.height <= h;
    if fits && c != corners {
        ctx.violation("rounded_rectangle|fitting-radii-changed-by-confine", case, || format!("{:?}", c));
    }
    let set = set_of(rr.points(), (w as usize + 2) * (h as usize + 2));
    if let Some(er) = runs_contiguous(&set, &rect) {
        ctx.violation("rounded_rectangle|row-or-column-not-one-run", case, || er);
    }
    // zero radii == rectangle
    if corners == CornerRadii::new(Size::zero()) {
        let r = set_of(rect.points(), (w as usize + 2) * (h as usize + 2));
        if r != set {
            ctx.violation("rounded_rectangle|zero-radii-differ-from-rectangle", case, || format!("{} vs {} points", set.len(), r.len()));
        }
    }
    // corners: band test against the ideal corner ellipse (confined radii), for corner boxes that
    // do not overlap another corner's box
    let tl = rect.top_left;
    let boxes = [
        (c.top_left, tl.x, tl.y, 0),
        (c.top_right, tl.x + w as i32 - c.top_right.width as i32, tl.y, 1),
        (c.bottom_right, tl.x + w as i32 - c.bottom_right.width as i32, tl.y + h as i32 - c.bottom_right.height as i32, 2),
        (c.bottom_left, tl.x, tl.y + h as i32 - c.bottom_left.height as i32, 3),
    ];
    // every point of the rectangle: it belongs to the ideal shape iff no corner whose box covers it
    // cuts it off (the boxes of diagonally opposite corners may overlap when both radii are large:
    // then both curves apply); points covered by no corner box belong to it
    for y in tl.y..tl.y + h as i32 {
        for x in tl.x..tl.x + w as i32 {
            let mut worst: Option<(f64, usize)> = None;
            for (r, bx, by, q) in boxes.iter() {
                if r.width == 0 || r.height == 0 || x < *bx || y < *by || x >= bx + r.width as i32 || y >= by + r.height as i32 {
                    continue;
                }
                // centre of the corner ellipse (continuous coordinates, pixel (x,y) covers [x,x+1))
                let (cx, cy) = match q {
                    0 => ((bx + r.width as i32) as f64, (by + r.height as i32) as f64),
                    1 => (*bx as f64, (by + r.height as i32) as f64),
                    2 => (*bx as f64, *by as f64),
                    _ => ((bx + r.width as i32) as f64, *by as f64),
                };
                let sd = signed_dist_point_ellipse(r.width as f64, r.height as f64, x as f64 + 0.5 - cx, y as f64 + 0.5 - cy);
                if worst.map_or(true, |(wsd, _)| sd > wsd) {
                    worst = Some((sd, *q as usize));
                }
            }
            let inside = rr.contains(Point::new(x, y));
            let in_points = set.contains(&(x, y));
            match worst {
                None => {
                    if !inside || !in_points {
                        ctx.violation("rounded_rectangle|straight-part-point-not-included", case, || format!("({},{}) lies in no corner box but contains() = {}, yielded by points() = {}", x, y, inside, in_points));
                        return;
                    }
                }
                Some((sd, q)) => {
                    if sd < -0.5 - GUARD && !(inside && in_points) {
                        ctx.violation("rounded_rectangle|corner-point-deep-inside-not-included", case, || format!("({},{}) is {:.3} px inside the ideal corner curve (corner {}), contains() = {}, yielded by points() = {}", x, y, -sd, q, inside, in_points));
                        return;
                    }
                    if sd > 0.5 + GUARD && (inside || in_points) {
                        ctx.violation("rounded_rectangle|corner-point-far-outside-included", case, || format!("({},{}) is {:.3} px outside the ideal corner curve (corner {}), contains() = {}, yielded by points() = {}", x, y, sd, q, inside, in_points));
                        return;
                    }
                }
            }
        }
    }
    ctx.count("rounded_rectangles_band_tested", 1);
    if w >= 3 && h >= 3 && corners != CornerRadii::new(Size::zero()) {
        ctx.nontrivial(egmon::rng::hash_str(&case()));
    }
}

fn check_arc_sector(ctx: &mut Ctx, tl: Point, d: u32, start: f32, sweep: f32) {
    ctx.eval();
    let circle = Circle::new(tl, d);
    let budget = (d as usize + 2) * (d as usize + 2);
    let cset = set_of(circle.points(), budget);
    let inner = set_of(circle.offset(-1).points(), budget);
    let ring: FastSet<(i32, i32)> = cset.difference(&inner).copied().collect();
    let sector = set_of(Sector::new(tl, d, start.deg(), sweep.deg()).points(), budget);
    let arc = set_of(Arc::new(tl, d, start.deg(), sweep.deg()).points(), budget);
    // the sector's other description of itself: contains() over the circle's bounding box
    let sector_shape = Sector::new(tl, d, start.deg(), sweep.deg());
    let mut sector_contains: FastSet<(i32, i32)> = FastSet::default();
    for y in tl.y - 1..tl.y + d as i32 + 1 {
        for x in tl.x - 1..tl.x + d as i32 + 1 {
            if ContainsPoint::contains(&sector_shape, Point::new(x, y)) {
                sector_contains.insert((x, y));
            }
        }
    }
    let case = || format!("top_left ({},{}) diameter {} start {} deg sweep {} deg", tl.x, tl.y, d, start, sweep);
    // centre in pixel-index coordinates
    let (cx, cy) = (tl.x as f64 + (d as f64 - 1.0) / 2.0, tl.y as f64 + (d as f64 - 1.0) / 2.0);
    let (s, w) = (start as f64, sweep as f64);
    'shapes: for (name, got, universe) in [("sector", &sector, &cset), ("sector-contains", &sector_contains, &cset), ("arc", &arc, &ring)] {
        if let Some(p) = got.iter().find(|p| !universe.contains(p)) {
            ctx.violation(format!("{}|point-outside-{}", name, if name == "arc" { "one-pixel-ring" } else { "circle" }), case, || format!("{:?}", p));
            continue 'shapes;
        }
        for p in universe.iter() {
            let (dx, dy) = (p.0 as f64 - cx, p.1 as f64 - cy);
            let near = if w.abs() >= 360.0 { false } else { dist_point_ray(s, dx, dy) <= 1.5 + GUARD || dist_point_ray(s + w, dx, dy) <= 1.5 + GUARD };
            if near {
                continue;
            }
            let theta = dy.atan2(dx).to_degrees();
            let want = in_sweep(theta, s, w);
            let has = got.contains(p);
            if want && !has {
                ctx.violation(format!("{}|point-inside-sweep-missing", name), case, || format!("{:?} (angle {:.2} deg, {:.2} px from the centre) is inside the sweep and more than 1.5 px from both radial boundaries", p, theta, (dx * dx + dy * dy).sqrt()));
                continue 'shapes;
            }
            if !want && has {
                // (the recorded finding about sweeps below 1 degree shows in points() and in contains() alike:
                // one signature for both views of the sector)
                let known_cause = w.abs() < 1.0 && dist_point_ray(s + 180.0, dx, dy) <= 1.0;
                ctx.violation(format!("{}|point-outside-sweep-included{}", if known_cause { name.trim_end_matches("-contains") } else { name }, if known_cause { "|sweep-below-1-degree-draws-opposite-radius" } else { "" }), case, || format!("{:?} (angle {:.2} deg) is outside the sweep and more than 1.5 px from both radial boundaries", p, theta));
                continue 'shapes;
            }
        }
    }
    ctx.count("arc_sector_points", (sector.len() + arc.len()) as u64);
    if d >= 4 && sweep != 0.0 {
        ctx.nontrivial(mix(mix(d as u64, start.to_bits() as u64), sweep.to_bits() as u64));
    }
    if ctx.wants_sample() {
        ctx.sample(|| jobj! {"arc_sector" => case(), "sector_points" => sector.len() as u64, "arc_points" => arc.len() as u64});
    }
}

fn pos(rng: &mut Rng) -> Point {
    match rng.below(3) {
        0 => Point::zero(),
        _ => Point::new(rng.i32r(-200, 200), rng.i32r(-200, 200)),
    }
}

fn main() {
    main_with("c18", "exploration", |run: &Run| {
        run.set_rule(
            "Circles: every diameter 0..=D (exact doubled-coordinate band test, symmetry, runs, touching sides, = ellipse(d,d), sector/arc with |sweep| >= 360); ellipses: every axis pair 0..=E and display-scale axis pairs (320x240 ... 640x480) (true distance to the ideal curve, band 0.5 px, symmetry, runs, = rounded rectangle with half-side radii); \
             rounded rectangles: all sizes 0..=12 x equal radii 0..=7 and random independent/oversized radii (confine sums, zero radii = rectangle, corner band test, runs); arcs and sectors: diameters up to 128 on a degree grid of start angles x sweeps -400..=400 plus random fractional angles (subset of circle/ring, membership iff inside the sweep beyond 1.5 px from the radial boundaries). \
             This binary is built twice (default features and fixed_point). Non-trivial = shape of at least 3 px with a curved boundary / non-zero sweep; distinct = distinct shape parameters.",
        );
        run.assume("ideal ellipse distance by robust bisection in f64 with a guard band of 1e-6 that resolves towards no verdict");
        run.assume("angle convention of the library: atan2(dy, dx) in screen coordinates, positive sweep increases it");
        let dmax = run.tier(96u64, 160u64);
        run.generate("circles", dmax + 1, true, 0.15, |ctx, idx, rng| check_circle(ctx, pos(rng), idx as u32));
        // a few large shapes (sizes beyond 255)
        let nlarge = run.tier(16u64, 240u64);
        run.generate("large-circles-ellipses", nlarge, false, 0.2, |ctx, idx, rng| {
            let big = *rng.pick(&[255u32, 256, 257, 300, 320, 511, 513]) + rng.u32r(0, 2);
            match idx % 4 {
                0 => check_circle(ctx, pos(rng), big),
                1 => check_ellipse(ctx, pos(rng), big, rng.u32r(1, 90)),
                2 => check_ellipse(ctx, pos(rng), rng.u32r(1, 90), big),
                _ => {
                    // both axes at display scale (full-screen ellipses of common panels, products beyond 2^16)
                    let (w, h) = [(320u32, 240u32), (240, 320), (257, 256), (255, 258), (400, 300), (480, 272), (640, 480), (296, 128), (128, 296), (250, 122)][(idx / 4 % 10) as usize];
                    check_ellipse(ctx, pos(rng), w + rng.u32r(0, 2), h + rng.u32r(0, 2));
                }
            }
        });
        // circles up to 2100 px (full band test, equals the ellipse with equal axes): an approximate
        // square root in the scanline code is exact for small operands (seeded `C18-13`: Newton capped at
        // 3 steps, first wrong at diameter 924; `C06-13`: capped at 4 steps, first wrong at 732)
        let ncirc = run.tier(40u64, 1600u64);
        run.generate("circles-up-to-2100", ncirc, false, 0.2, |ctx, idx, rng| {
            const D: [u32; 12] = [731, 732, 733, 923, 924, 925, 1001, 1023, 1024, 1025, 2047, 2048];
            let d = if idx < 12 { D[idx as usize] } else if rng.chance(1, 2) { rng.u32r(514, 1100) } else { rng.u32r(1100, 2100) };
            check_circle(ctx, pos(rng), d);
            ctx.count("circles_beyond_513_px", 1);
        });
        // ellipses with both axes between 100 and 600 px (the products of the squared axes pass 2^31 and
        // 2^32 inside this window; seeded `C18-14`: a 32-bit fast path for axes below 256 whose *sum* of two
        // products overflows from about 182 x 255)
        let nmid = run.tier(64u64, 6000u64);
        run.generate("ellipses-both-axes-100-to-600", nmid, false, 0.2, |ctx, idx, rng| {
            let (w, h) = match idx % 4 {
                0 => (rng.u32r(170, 260), rng.u32r(170, 260)),
                1 => (rng.u32r(100, 300), rng.u32r(100, 300)),
                2 => (*rng.pick(&[181u32, 182, 215, 216, 254, 255, 256, 257]), *rng.pick(&[181u32, 182, 215, 216, 254, 255, 256, 257])),
                _ => (rng.u32r(100, 600), rng.u32r(100, 600)),
            };
            check_ellipse(ctx, pos(rng), w, h);
            ctx.count("ellipses_with_both_axes_beyond_100_px", 1);
        });
        let emax = run.tier(32u64, 100u64);
        run.generate("ellipses", (emax + 1) * (emax + 1), true, 0.25, |ctx, idx, rng| check_ellipse(ctx, pos(rng), (idx % (emax + 1)) as u32, (idx / (emax + 1)) as u32));
        run.generate("rounded-equal-radii", 13 * 13 * 8 * 8, true, 0.2, |ctx, idx, rng| {
            let (w, h, rx, ry) = ((idx % 13) as u32, ((idx / 13) % 13) as u32, ((idx / 169) % 8) as u32, ((idx / 1352) % 8) as u32);
            check_rounded(ctx, Rectangle::new(pos(rng), Size::new(w, h)), CornerRadii::new(Size::new(rx, ry)));
        });
        let nrr = run.tier(60_000u64, 8_000_000u64);
        run.generate("rounded-random-radii", nrr, false, 0.2, |ctx, _idx, rng| {
            let (w, h) = if rng.chance(1, 4) { (rng.u32r(0, 120), rng.u32r(0, 30)) } else { (rng.u32r(0, 30), rng.u32r(0, 30)) };
            let oversized = rng.chance(1, 2);
            let mut r = |rng: &mut Rng| match rng.below(5) {
                0 => Size::zero(),
                _ if oversized => Size::new(rng.u32r(0, w * 2 + 2), rng.u32r(0, h * 2 + 2)),
                _ => Size::new(rng.u32r(0, w / 2), rng.u32r(0, h / 2)),
            };
            let corners = CornerRadii { top_left: r(rng), top_right: r(rng), bottom_right: r(rng), bottom_left: r(rng) };
            check_rounded(ctx, Rectangle::new(pos(rng), Size::new(w, h)), corners);
        });
        // display-scale rectangles: only the arithmetic of `confine_radii()` (sums never exceed the
        // shared side, fitting radii stay as they are) - no point sets, so millions of cases are cheap.
        // Half of the cases overflow two sides by nearly the same ratio, where a scale factor taken from
        // the wrong side leaves an excess of a pixel or two (added after seeded `C18-12`: ratios compared
        // with 8 fractional bits, wrong only for sides of about 300 px and more)
        let nconf = run.tier(1_500_000u64, 150_000_000u64);
        run.generate("confine-display-scale", nconf, false, 0.15, |ctx, _idx, rng| {
            let side = |rng: &mut Rng| match rng.below(8) {
                0 => rng.u32r(0, 40),
                // (radius x side passes 2^32 from sides of 46 341: scaled in 64 bits since the repair of DESIGN 5.1 #23)
                1 => rng.u32r(1000, 100_000),
                2 => 1u32 << rng.u32r(4, 17),
                _ => rng.u32r(40, 1400),
            };
            let (w, h) = (side(rng), side(rng));
            let corners = if rng.chance(1, 2) {
                // a common overflow ratio q/1000 on both axes, with a jitter of a few pixels
                let q = rng.u32r(400, 2600) as u64;
                let j = |rng: &mut Rng, v: u64| (v as i64 + rng.i32r(-3, 3) as i64).max(0) as u32;
                let mut c = |rng: &mut Rng| Size::new(j(rng, w as u64 * q / 2000), j(rng, h as u64 * q / 2000));
                if rng.chance(1, 2) {
                    CornerRadii::new(c(rng))
                } else {
                    CornerRadii { top_left: c(rng), top_right: c(rng), bottom_right: c(rng), bottom_left: c(rng) }
                }
            } else {
                let mut r = |rng: &mut Rng| match rng.below(6) {
                    0 => Size::zero(),
                    1 => Size::new(rng.u32r(0, w / 2), rng.u32r(0, h / 2)),
                    _ => Size::new(rng.u32r(0, w * 2 + 2), rng.u32r(0, h * 2 + 2)),
                };
                CornerRadii { top_left: r(rng), top_right: r(rng), bottom_right: r(rng), bottom_left: r(rng) }
            };
            ctx.eval();
            let rr = RoundedRectangle::new(Rectangle::new(pos(rng), Size::new(w, h)), corners);
            let case = || format!("{:?}", rr);
            let c = rr.confine_radii().corners;
            let sums = [(c.top_left.width as u64 + c.top_right.width as u64, w as u64), (c.bottom_left.width as u64 + c.bottom_right.width as u64, w as u64), (c.top_left.height as u64 + c.bottom_left.height as u64, h as u64), (c.top_right.height as u64 + c.bottom_right.height as u64, h as u64)];
            if sums.iter().any(|(s, side)| s > side) {
                ctx.violation("rounded_rectangle|confined-radii-exceed-side", case, || format!("confined radii {:?}: sums/sides (top, bottom, left, right) {:?}", c, sums));
                return;
            }
            let o = corners;
            let fits = o.top_left.width as u64 + o.top_right.width as u64 <= w as u64 && o.bottom_left.width as u64 + o.bottom_right.width as u64 <= w as u64 && o.top_left.height as u64 + o.bottom_left.height as u64 <= h as u64 && o.top_right.height as u64 + o.bottom_right.height as u64 <= h as u64;
            if fits && c != o {
                ctx.violation("rounded_rectangle|fitting-radii-changed-by-confine", case, || format!("{:?}", c));
                return;
            }
            // confining never enlarges a radius
            let grown = [(c.top_left, o.top_left), (c.top_right, o.top_right), (c.bottom_right, o.bottom_right), (c.bottom_left, o.bottom_left)].iter().any(|(a, b)| a.width > b.width || a.height > b.height);
            if grown {
                ctx.violation("rounded_rectangle|confine-enlarges-a-radius", case, || format!("{:?}", c));
                return;
            }
            if !fits {
                ctx.nontrivial(mix(mix(w as u64, h as u64), mix(o.top_left.width as u64, o.bottom_right.height as u64)));
            }
            ctx.count("display_scale_confinements", 1);
            if ctx.wants_sample() {
                ctx.sample(|| jobj! {"rounded_rectangle" => format!("{:?}", rr), "confined" => format!("{:?}", c)});
            }
        });
        // arcs / sectors on an angle grid
        let step = run.tier(5u64, 1u64);
        let na = 360 / step;
        let diameters: Vec<u32> = if run.quick() { vec![1, 2, 5, 9, 16, 31, 64, 128] } else { vec![0, 1, 2, 3, 4, 5, 7, 9, 12, 16, 24, 31, 32, 48, 64, 97, 128] };
        let sweep_step = run.tier(25i64, 5i64);
        let sweeps: Vec<f32> = (-400 / sweep_step..=400 / sweep_step).map(|k| (k * sweep_step) as f32).collect();
        let (nd, ns) = (diameters.len() as u64, sweeps.len() as u64);
        run.generate("arc-sector-angle-grid", nd * na * ns, true, 0.5, |ctx, idx, rng| {
            let d = diameters[(idx % nd) as usize];
            let start = ((idx / nd) % na * step) as f32;
            let sweep = sweeps[((idx / (nd * na)) % ns) as usize];
            check_arc_sector(ctx, pos(rng), d, start, sweep);
        });
        let nrand = run.tier(30_000u64, 3_000_000u64);
        run.generate("arc-sector-random-angles", nrand, false, 0.5, |ctx, _idx, rng| {
            let d = if rng.chance(1, 3) { rng.u32r(0, 128) } else { rng.u32r(0, 40) };
            check_arc_sector(ctx, pos(rng), d, zoo::gen_angle(rng), zoo::gen_angle(rng));
        });
    })
}
