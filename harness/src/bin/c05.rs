//! C05 — points() enumerates exactly the points contains() accepts.
//! Relational oracle between two public code paths of each primitive.
use egmon::{jobj, main_with, rng::mix, target::FastSet, zoo, Ctx, Rng, Run};
use embedded_graphics::{
    geometry::AngleUnit,
    prelude::*,
    primitives::{Circle, ContainsPoint, CornerRadii, Ellipse, PointsIter, Rectangle, RoundedRectangle, Sector, Triangle},
};

/// cheap necessary condition for large shapes: see the generator "display-scale-row-boundaries"
fn row_boundaries<P>(ctx: &mut Ctx, kind: &'static str, p: &P, desc: &dyn Fn() -> String, rng: &mut Rng)
where
    P: PointsIter + ContainsPoint + Dimensions,
{
    ctx.eval();
    let bb = p.bounding_box();
    let budget = bb.size.width as u64 * bb.size.height as u64 + 8;
    let case = || desc();
    let mut runs: Vec<(i32, i32, i32)> = Vec::new(); // (y, first x, last x)
    let mut n = 0u64;
    for q in p.points() {
        n += 1;
        if n > budget {
            ctx.violation(format!("{}|points-more-than-bounding-box-area", kind), case, || format!("more than {} points", budget));
            return;
        }
        match runs.last_mut() {
            Some(r) if r.0 == q.y => {
                if q.x != r.2 + 1 {
                    ctx.violation(format!("{}|points-row-not-one-ascending-run", kind), case, || format!("row {}: {} follows {}", q.y, q.x, r.2));
                    return;
                }
                r.2 = q.x;
            }
            Some(r) if q.y < r.0 => {
                ctx.violation(format!("{}|points-not-row-major", kind), case, || format!("row {} after row {}", q.y, r.0));
                return;
            }
            _ => runs.push((q.y, q.x, q.x)),
        }
    }
    for &(y, x0, x1) in &runs {
        for (x, want) in [(x0, true), (x1, true), (x0 - 1, false), (x1 + 1, false), ((x0 + x1) / 2, true)] {
            if p.contains(Point::new(x, y)) != want {
                ctx.violation(
                    format!("{}|{}", kind, if want { "points-yields-points-contains-rejects" } else { "contains-accepts-points-not-yielded" }),
                    case,
                    || format!("row {}: points() yields x {}..={}, contains(({},{})) = {}", y, x0, x1, x, y, !want),
                );
                return;
            }
        }
    }
    // rows without any yielded point, and random points: contains() must agree with the runs
    let by_row: std::collections::HashMap<i32, (i32, i32)> = runs.iter().map(|r| (r.0, (r.1, r.2))).collect();
    for _ in 0..64 {
        let q = Point::new(bb.top_left.x + rng.i32r(-2, bb.size.width as i32 + 1), bb.top_left.y + rng.i32r(-2, bb.size.height as i32 + 1));
        let want = by_row.get(&q.y).map_or(false, |&(a, b)| q.x >= a && q.x <= b);
        if p.contains(q) != want {
            ctx.violation(format!("{}|{}", kind, if want { "points-yields-points-contains-rejects" } else { "contains-accepts-points-not-yielded" }), case, || format!("{:?}: contains() = {}, yielded by points() = {}", q, !want, want));
            return;
        }
    }
    for y in [bb.top_left.y, bb.top_left.y + bb.size.height as i32 - 1] {
        if !by_row.contains_key(&y) {
            for x in bb.top_left.x..bb.top_left.x + bb.size.width as i32 {
                if p.contains(Point::new(x, y)) {
                    ctx.violation(format!("{}|contains-accepts-points-not-yielded", kind), case, || format!("row {} yields nothing but contains(({},{})) is true", y, x, y));
                    return;
                }
            }
        }
    }
    ctx.count("display_scale_shapes_walked", 1);
    ctx.count("points_walked", n);
    ctx.nontrivial(egmon::rng::hash_str(&case()));
}

fn check<P>(ctx: &mut Ctx, kind: &'static str, p: &P, desc: &dyn Fn() -> String, rng: &mut Rng)
where
    P: PointsIter + ContainsPoint + Dimensions,
{
    ctx.eval();
    let bb = p.bounding_box();
    let area = bb.size.width as u64 * bb.size.height as u64;
    let budget = (area + 8) as usize;
    let pts: Vec<Point> = p.points().take(budget + 1).collect();
    let case = || desc();
    if pts.len() > budget {
        ctx.violation(format!("{}|points-more-than-bounding-box-area", kind), case, || format!("points() yields more than {} points (bounding box area {})", budget, area));
        return;
    }
    // the same sequence through the other ways of consuming an iterator, from partly consumed states
    if pts.len() <= 2048 {
        let n = pts.len();
        let first_row = pts.iter().take_while(|q| q.y == pts[0].y).count();
        if let Some(d) = egmon::target::consumer_disagreement(&|| p.points(), &pts, &[0, 1, first_row, first_row + 1, n / 2, n]) {
            ctx.violation(format!("{}|points|consumed-differently", kind), case, || d.clone());
        }
        ctx.count("points_iterators_consumed_in_other_ways", 1);
    }
    // strictly increasing in (y, x): each point once, row-major
    for w in pts.windows(2) {
        if (w[0].y, w[0].x) >= (w[1].y, w[1].x) {
            let k = if w[0] == w[1] { "duplicate-point" } else { "not-row-major" };
            ctx.violation(format!("{}|points-{}", kind, k), case, || format!("{:?} is followed by {:?}", w[0], w[1]));
            break;
        }
    }
    // all inside the bounding box
    if let Some(o) = pts.iter().find(|q| !bb.contains(**q)) {
        ctx.violation(format!("{}|point-outside-bounding-box", kind), case, || format!("{:?} is outside {:?}", o, bb));
    }
    // set(points) == { p in bbox grown by 3 : contains(p) }
    let set: FastSet<(i32, i32)> = pts.iter().map(|q| (q.x, q.y)).collect();
    let mut contained = 0u64;
    let mut first_missing: Option<Point> = None; // contains() true, not yielded
    let mut first_extra: Option<Point> = None; // yielded, contains() false
    let (mut missing, mut extra) = (0u64, 0u64);
    let m = 3;
    for y in bb.top_left.y - m..bb.top_left.y + bb.size.height as i32 + m {
        for x in bb.top_left.x - m..bb.top_left.x + bb.size.width as i32 + m {
            let q = Point::new(x, y);
            let c = p.contains(q);
            let inb = set.contains(&(x, y));
            if c {
                contained += 1;
            }
            if c && !inb {
                missing += 1;
                first_missing.get_or_insert(q);
            }
            if !c && inb {
                extra += 1;
                first_extra.get_or_insert(q);
            }
        }
    }
    if missing > 0 || extra > 0 {
        let outside = first_missing.map(|q| !bb.contains(q)).unwrap_or(false);
        let class = if outside {
            "contains-true-outside-bounding-box"
        } else if pts.is_empty() && contained > 0 {
            "points-empty-but-contains-accepts"
        } else if missing > 0 && extra == 0 {
            "contains-accepts-points-not-yielded"
        } else if extra > 0 && missing == 0 {
            "points-yields-points-contains-rejects"
        } else {
            "points-and-contains-differ-both-ways"
        };
        ctx.violation(format!("{}|{}", kind, class), case, || {
            format!(
                "points() yields {} points, contains() accepts {} probes; {} accepted-but-not-yielded (first {:?}), {} yielded-but-rejected (first {:?})",
                pts.len(),
                contained,
                missing,
                first_missing,
                extra,
                first_extra
            )
        });
    }
    // contains() is false far away from the bounding box
    for _ in 0..24 {
        let far = match rng.below(4) {
            0 => Point::new(bb.top_left.x - rng.i32r(4, 3000), bb.top_left.y + rng.i32r(-50, 50)),
            1 => Point::new(bb.top_left.x + bb.size.width as i32 + rng.i32r(3, 3000), bb.top_left.y + rng.i32r(-50, 50)),
            2 => Point::new(bb.top_left.x + rng.i32r(-50, 50), bb.top_left.y - rng.i32r(4, 3000)),
            _ => Point::new(bb.top_left.x + rng.i32r(-50, 50), bb.top_left.y + bb.size.height as i32 + rng.i32r(3, 3000)),
        };
        if !bb.contains(far) && p.contains(far) {
            ctx.violation(format!("{}|contains-true-outside-bounding-box", kind), case, || format!("contains({:?}) is true, bounding box {:?}", far, bb));
            break;
        }
    }
    ctx.count("points_yielded", pts.len() as u64);
    ctx.count("contains_probes", ((bb.size.width + 6) as u64) * ((bb.size.height + 6) as u64) + 24);
    if pts.len() >= 2 {
        ctx.nontrivial(egmon::rng::hash_str(&desc()));
    }
    if ctx.wants_sample() {
        ctx.sample(|| jobj! {"primitive" => desc(), "points" => pts.len() as u64, "contained_probes" => contained});
    }
}

fn pos(rng: &mut Rng) -> Point {
    match rng.below(4) {
        0 => Point::zero(),
        1 => Point::new(rng.i32r(-40, 5), rng.i32r(-40, 5)),
        _ => Point::new(rng.i32r(-300, 300), rng.i32r(-300, 300)),
    }
}

fn main() {
    main_with("c05", "exploration", |run: &Run| {
        run.set_rule(
            "Rectangle/Ellipse: all sizes w,h in 0..=N (exhaustive) at random positions; Circle: all diameters 0..=2N; RoundedRectangle: all sizes 0..=14 x all equal radii 0..=8 x 0..=8 (exhaustive) plus random independent radii up to 3x the side; \
             Triangle: all vertex triples on a GxG grid (exhaustive, zero-area triples skipped as the statement requires) plus random +-60; Sector: diameters 0..=24 on a degree grid of start/sweep angles plus random fractional angles. \
             contains() is probed on the bounding box grown by 3 and on 24 far-away points. Non-trivial = the primitive yields >= 2 points; distinct = distinct primitive descriptions.",
        );
        let n = run.tier(40u32, 96u32);
        let grid = (n as u64 + 1) * (n as u64 + 1);
        run.generate("rectangle-sizes", grid, true, 0.1, |ctx, idx, rng| {
            let (w, h) = ((idx % (n as u64 + 1)) as u32, (idx / (n as u64 + 1)) as u32);
            let r = Rectangle::new(pos(rng), Size::new(w, h));
            check(ctx, "rectangle", &r, &|| format!("{:?}", r), rng);
        });
        run.generate("ellipse-sizes", grid, true, 0.15, |ctx, idx, rng| {
            let (w, h) = ((idx % (n as u64 + 1)) as u32, (idx / (n as u64 + 1)) as u32);
            let e = Ellipse::new(pos(rng), Size::new(w, h));
            check(ctx, "ellipse", &e, &|| format!("{:?}", e), rng);
        });
        run.generate("circle-diameters", 2 * n as u64 + 1, true, 0.1, |ctx, idx, rng| {
            let c = Circle::new(pos(rng), idx as u32);
            check(ctx, "circle", &c, &|| format!("{:?}", c), rng);
        });
        // rounded rectangles: equal radii exhaustive
        let rr = 15u64 * 15 * 9 * 9;
        run.generate("rounded-rectangle-equal-radii", rr, true, 0.15, |ctx, idx, rng| {
            let (w, h, rx, ry) = ((idx % 15) as u32, ((idx / 15) % 15) as u32, ((idx / 225) % 9) as u32, ((idx / 2025) % 9) as u32);
            let r = RoundedRectangle::with_equal_corners(Rectangle::new(pos(rng), Size::new(w, h)), Size::new(rx, ry));
            check(ctx, "rounded_rectangle", &r, &|| format!("{:?}", r), rng);
        });
        let rrn = run.tier(60_000u64, 1_500_000u64);
        run.generate("rounded-rectangle-random-radii", rrn, false, 0.15, |ctx, _idx, rng| {
            let (w, h) = if rng.chance(1, 4) { (rng.u32r(0, 60), rng.u32r(0, 60)) } else { (rng.u32r(0, 16), rng.u32r(0, 34)) };
            let mut r = |rng: &mut Rng| match rng.below(4) {
                0 => Size::zero(),
                1 => Size::new(rng.u32r(0, w / 2 + 1), rng.u32r(0, h / 2 + 1)),
                _ => Size::new(rng.u32r(0, w * 3 + 2), rng.u32r(0, h * 3 + 2)),
            };
            let corners = CornerRadii { top_left: r(rng), top_right: r(rng), bottom_right: r(rng), bottom_left: r(rng) };
            let rr = RoundedRectangle::new(Rectangle::new(pos(rng), Size::new(w, h)), corners);
            check(ctx, "rounded_rectangle", &rr, &|| format!("{:?}", rr), rng);
        });
        // triangles: grid exhaustive (non-zero area only), random
        let g = run.tier(6u64, 8u64);
        let gp = g * g;
        run.generate("triangle-grid", gp * gp * gp, true, 0.2, |ctx, idx, rng| {
            let v = |i: u64| Point::new((i % g) as i32, (i / g) as i32);
            let (a, b, c) = (v(idx % gp), v((idx / gp) % gp), v(idx / (gp * gp)));
            let area2 = (b.x - a.x) as i64 * (c.y - a.y) as i64 - (c.x - a.x) as i64 * (b.y - a.y) as i64;
            if area2 == 0 {
                ctx.count("zero_area_triples_skipped", 1);
                return;
            }
            let o = Point::new(rng.i32r(-3, 3) * 5, rng.i32r(-3, 3) * 5);
            let t = Triangle::new(a + o, b + o, c + o);
            check(ctx, "triangle", &t, &|| format!("{:?}", t), rng);
        });
        let trn = run.tier(60_000u64, 1_500_000u64);
        run.generate("triangle-random", trn, false, 0.15, |ctx, _idx, rng| {
            let v = |rng: &mut Rng| Point::new(rng.i32r(-60, 60), rng.i32r(-60, 60));
            let (a, b, c) = (v(rng), v(rng), v(rng));
            let area2 = (b.x - a.x) as i64 * (c.y - a.y) as i64 - (c.x - a.x) as i64 * (b.y - a.y) as i64;
            if area2 == 0 {
                return;
            }
            let t = Triangle::new(a, b, c);
            check(ctx, "triangle", &t, &|| format!("{:?}", t), rng);
        });
        // sectors
        let step = run.tier(5u64, 1u64);
        let na = 360 / step;
        let sweeps: Vec<f32> = {
            let mut v = Vec::new();
            let mut s = -400.0f32;
            while s <= 400.0 {
                v.push(s);
                s += run.tier(20.0, 5.0);
            }
            v
        };
        let ns = sweeps.len() as u64;
        run.generate("sector-angle-grid", 25 * na * ns, true, 0.25, |ctx, idx, rng| {
            let d = (idx % 25) as u32;
            let start = ((idx / 25) % na * step) as f32;
            let sweep = sweeps[((idx / (25 * na)) % ns) as usize];
            let s = Sector::new(pos(rng), d, start.deg(), sweep.deg());
            check(ctx, "sector", &s, &|| format!("Sector {{ top_left: {:?}, diameter: {}, start: {} deg, sweep: {} deg }}", s.top_left, d, start, sweep), rng);
        });
        let sn = run.tier(40_000u64, 800_000u64);
        run.generate("sector-random", sn, false, 0.2, |ctx, _idx, rng| {
            let d = rng.u32r(0, 70);
            let (start, sweep) = (zoo::gen_angle(rng), zoo::gen_angle(rng));
            let s = Sector::new(pos(rng), d, start.deg(), sweep.deg());
            check(ctx, "sector", &s, &|| format!("Sector {{ top_left: {:?}, diameter: {}, start: {} deg, sweep: {} deg }}", s.top_left, d, start, sweep), rng);
        });
        // sectors whose sweep is tiny but not zero, starting on or next to the axes and diagonals
        // (a gauge that has just started): the two boundary half planes nearly coincide there
        let snd = run.tier(20_000u64, 600_000u64);
        run.generate("sector-near-degenerate-sweeps", snd, false, 0.2, |ctx, _idx, rng| {
            let d = rng.u32r(0, 45);
            let base = (rng.i32r(-8, 16) * 45) as f32;
            let delta = *rng.pick(&[0.0f32, 0.0, 0.01, -0.01, 0.03, -0.03, 0.05, -0.05, 0.2, -0.2]);
            let mag = *rng.pick(&[1e-4f32, 0.001, 0.005, 0.01, 0.02, 0.03, 0.05, 0.056, 0.1, 0.2, 0.32, 0.5, 1.0]);
            let (start, sweep) = (base + delta, if rng.chance(1, 2) { mag } else { -mag });
            let s = Sector::new(pos(rng), d, start.deg(), sweep.deg());
            check(ctx, "sector", &s, &|| format!("Sector {{ top_left: {:?}, diameter: {}, start: {} deg, sweep: {} deg }}", s.top_left, d, start, sweep), rng);
        });
        // display-scale ellipses, circles and rounded rectangles (both sides in the hundreds): the full
        // probe costs width x height contains() calls, so here the rows of points() are walked once
        // (row-major, one contiguous run per row) and contains() is probed at both ends of every run
        // and one pixel beyond them, plus random points - a necessary condition that is cheap enough
        // for thousands of sizes
        let nb = run.tier(2500u64, 120_000u64);
        run.generate("display-scale-row-boundaries", nb, false, 0.15, |ctx, idx, rng| {
            let (w, h) = (rng.u32r(100, 1300), rng.u32r(100, 1000));
            let tl = Point::new(rng.i32r(-700, 300), rng.i32r(-700, 300));
            match idx % 4 {
                0 | 1 => {
                    let e = Ellipse::new(tl, Size::new(w, h));
                    row_boundaries(ctx, "ellipse", &e, &|| format!("{:?}", e), rng);
                }
                2 => {
                    let c = Circle::new(tl, w);
                    row_boundaries(ctx, "circle", &c, &|| format!("{:?}", c), rng);
                }
                _ => {
                    let rr = RoundedRectangle::with_equal_corners(Rectangle::new(tl, Size::new(w, h)), Size::new(rng.u32r(0, w), rng.u32r(0, h)));
                    row_boundaries(ctx, "rounded_rectangle", &rr, &|| format!("{:?}", rr), rng);
                }
            }
        });
        // one side beyond 16 bits (flat or tall, so the point count stays small), same row walk
        let nh = run.tier(48u64, 1500u64);
        run.generate("one-side-beyond-16-bit", nh, false, 0.1, |ctx, idx, rng| {
            let long = *rng.pick(&[65_535u32, 65_536, 65_537, 65_538, 70_001, 92_682, 131_073]) + if idx % 3 == 2 { rng.u32r(0, 500) } else { 0 };
            let short = rng.u32r(1, 7);
            let (w, h) = if idx % 2 == 0 { (long, short) } else { (short, long) };
            let tl = Point::new(rng.i32r(-70_000, 100), rng.i32r(-70_000, 100));
            match (idx / 2) % 3 {
                0 | 1 => {
                    let e = Ellipse::new(tl, Size::new(w, h));
                    row_boundaries(ctx, "ellipse", &e, &|| format!("{:?}", e), rng);
                }
                _ => {
                    let rr = RoundedRectangle::with_equal_corners(Rectangle::new(tl, Size::new(w, h)), Size::new(rng.u32r(0, w), rng.u32r(0, h)));
                    row_boundaries(ctx, "rounded_rectangle", &rr, &|| format!("{:?}", rr), rng);
                }
            }
            ctx.count("shapes_with_a_side_beyond_16_bits", 1);
        });
        // a few large shapes (sizes beyond 255), all six primitives
        let nl = run.tier(96u64, 3000u64);
        run.generate("large-shapes", nl, false, 0.3, |ctx, idx, rng| {
            let big = |rng: &mut Rng| *rng.pick(&[255u32, 256, 257, 300, 320, 511, 513]) + rng.u32r(0, 3);
            let small = |rng: &mut Rng| rng.u32r(1, 40);
            let (w, h) = match idx % 3 {
                0 => (big(rng), small(rng)),
                1 => (small(rng), big(rng)),
                _ => (big(rng), big(rng) / 2),
            };
            let tl = Point::new(rng.i32r(-600, 300), rng.i32r(-600, 300));
            match (idx / 3) % 6 {
                0 => {
                    let r = Rectangle::new(tl, Size::new(w, h));
                    check(ctx, "rectangle", &r, &|| format!("{:?}", r), rng);
                }
                1 => {
                    let c = Circle::new(tl, w.max(h));
                    check(ctx, "circle", &c, &|| format!("{:?}", c), rng);
                }
                2 => {
                    let e = Ellipse::new(tl, Size::new(w, h));
                    check(ctx, "ellipse", &e, &|| format!("{:?}", e), rng);
                }
                3 => {
                    let mut r = |rng: &mut Rng| Size::new(rng.u32r(0, w), rng.u32r(0, h));
                    let corners = CornerRadii { top_left: r(rng), top_right: r(rng), bottom_right: r(rng), bottom_left: r(rng) };
                    let rr = RoundedRectangle::new(Rectangle::new(tl, Size::new(w, h)), corners);
                    check(ctx, "rounded_rectangle", &rr, &|| format!("{:?}", rr), rng);
                }
                4 => {
                    let t = Triangle::new(tl, tl + Point::new(w as i32, rng.i32r(0, h as i32)), tl + Point::new(rng.i32r(0, w as i32), h as i32));
                    let a2 = (t.vertices[1].x - t.vertices[0].x) as i64 * (t.vertices[2].y - t.vertices[0].y) as i64 - (t.vertices[2].x - t.vertices[0].x) as i64 * (t.vertices[1].y - t.vertices[0].y) as i64;
                    if a2 != 0 {
                        check(ctx, "triangle", &t, &|| format!("{:?}", t), rng);
                    }
                }
                _ => {
                    let (start, sweep) = (zoo::gen_angle(rng), zoo::gen_angle(rng));
                    let s = Sector::new(tl, w.max(h), start.deg(), sweep.deg());
                    check(ctx, "sector", &s, &|| format!("Sector {{ top_left: {:?}, diameter: {}, start: {} deg, sweep: {} deg }}", s.top_left, w.max(h), start, sweep), rng);
                }
            }
        });
        let _ = mix(0, 0);
    })
}
