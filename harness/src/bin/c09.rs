//! C09 — raw images and sub-images reproduce their pixel data exactly.
//! Reference model: independent decoder of the documented raw layout (rows padded to whole bytes).
use egmon::{
    jobj, main_with,
    rng::mix,
    target::{rect, unbounded_box, Col, IterTarget, Kind, NativeTarget, PixMap, Recorder},
    Ctx, Rng, Run,
};
use embedded_graphics::{
    image::{GetPixel, Image, ImageDrawable, ImageDrawableExt, ImageRaw},
    iterator::raw::RawDataSlice,
    pixelcolor::{
        raw::{BigEndianLsb0, DataOrder, LittleEndianMsb0, RawData, RawU32},
        *,
    },
    prelude::*,
    primitives::Rectangle,
};

/// 32-bit colour over RawU32 (the library has no built-in one)
#[derive(Copy, Clone, PartialEq, Eq, Debug)]
pub struct C32(RawU32);
impl PixelColor for C32 {
    type Raw = RawU32;
}
impl From<RawU32> for C32 {
    fn from(r: RawU32) -> Self {
        C32(r)
    }
}
impl From<C32> for RawU32 {
    fn from(c: C32) -> Self {
        c.0
    }
}

fn stride(w: u32, bpp: u32) -> usize {
    ((w as usize) * bpp as usize + 7) / 8
}

/// documented layout -> raw value of pixel (x, y)
fn model_pixel(data: &[u8], w: u32, bpp: u32, alt: bool, x: u32, y: u32) -> u32 {
    let st = stride(w, bpp);
    if bpp < 8 {
        let ppb = 8 / bpp;
        let b = data[y as usize * st + (x / ppb) as usize] as u32;
        let slot = x % ppb;
        let pos = (if alt { slot } else { ppb - 1 - slot }) * bpp;
        (b >> pos) & ((1 << bpp) - 1)
    } else {
        let n = (bpp / 8) as usize;
        let o = y as usize * st + x as usize * n;
        let mut v = 0u32;
        for k in 0..n {
            let byte = data[o + k] as u32;
            if alt {
                v = (v << 8) | byte;
            } else {
                v |= byte << (8 * k);
            }
        }
        v
    }
}

/// half-open intersection of two (x, y, w, h) rectangles as point sets; None = empty
fn isect(a: (i64, i64, i64, i64), b: (i64, i64, i64, i64)) -> Option<(i64, i64, i64, i64)> {
    let x0 = a.0.max(b.0);
    let y0 = a.1.max(b.1);
    let x1 = (a.0 + a.2).min(b.0 + b.2);
    let y1 = (a.1 + a.3).min(b.1 + b.3);
    if x1 > x0 && y1 > y0 {
        Some((x0, y0, x1 - x0, y1 - y0))
    } else {
        None
    }
}

fn r64(r: &Rectangle) -> (i64, i64, i64, i64) {
    (r.top_left.x as i64, r.top_left.y as i64, r.size.width as i64, r.size.height as i64)
}

fn sub_area(rng: &mut Rng, w: u32, h: u32) -> Rectangle {
    let (w, h) = (w as i32, h as i32);
    match rng.below(9) {
        0 => rect(0, 0, w as u32, h as u32),                                                       // everything
        1 => rect(rng.i32r(-3, 1), rng.i32r(-3, 1), rng.u32r(0, w as u32 + 5), rng.u32r(0, h as u32 + 5)), // overlapping top/left
        2 => rect(rng.i32r(0, w.max(1)), rng.i32r(0, h.max(1)), rng.u32r(0, w as u32 + 3), rng.u32r(0, h as u32 + 3)), // overlapping bottom/right
        3 => rect(rng.i32r(-2, w + 2), rng.i32r(-2, h + 2), 0, rng.u32r(0, 3)),                            // zero width
        4 => rect(rng.i32r(-2, w + 2), rng.i32r(-2, h + 2), rng.u32r(0, 3), 0),                            // zero height
        5 => rect(w + rng.i32r(0, 3), rng.i32r(-2, h + 2), rng.u32r(1, 4), rng.u32r(1, 4)),                  // outside right
        6 => rect(rng.i32r(-2, w + 2), -rng.i32r(1, 6), rng.u32r(1, 4), 1),                                 // above
        _ => {
            // strictly inside
            let x = rng.i32r(0, (w - 1).max(0));
            let y = rng.i32r(0, (h - 1).max(0));
            rect(x, y, rng.u32r(0, (w - x).max(0) as u32), rng.u32r(0, (h - y).max(0) as u32))
        }
    }
}

struct Img<'a> {
    data: &'a [u8],
    w: u32,
    h: u32,
    bpp: u32,
    alt: bool,
}

impl Img<'_> {
    /// expected map of drawing the parent pixels inside `area` (already clipped, parent coords)
    /// at `o`, restricted to `clip` (target box)
    fn expected<C: Col>(&self, area: Option<(i64, i64, i64, i64)>, o: Point, clip: Option<&Rectangle>) -> PixMap {
        let mut m = PixMap::new();
        if let Some((ax, ay, aw, ah)) = area {
            for yy in 0..ah {
                for xx in 0..aw {
                    let v = model_pixel(self.data, self.w, self.bpp, self.alt, (ax + xx) as u32, (ay + yy) as u32);
                    let c = C::from_u32(v).to_u32();
                    let (tx, ty) = (o.x as i64 + xx, o.y as i64 + yy);
                    if let Some(cl) = clip {
                        let c4 = r64(cl);
                        if !(tx >= c4.0 && ty >= c4.1 && tx < c4.0 + c4.2 && ty < c4.1 + c4.3) {
                            continue;
                        }
                    }
                    m.set(tx as i32, ty as i32, c);
                }
            }
        }
        m
    }
}

fn check_draw<C, D>(ctx: &mut Ctx, tname: &str, what: &str, d: &D, want_unb: &PixMap, want_area: u64, case: &dyn Fn() -> String)
where
    C: Col,
    D: Drawable<Color = C>,
{
    // unbounded recording targets: default fills and native fills
    let mut it = IterTarget::<C>::new(unbounded_box());
    let mut nt = NativeTarget::<C>::new(unbounded_box());
    ctx.eval();
    let r1 = d.draw(&mut it);
    let r2 = d.draw(&mut nt);
    if r1.is_err() || r2.is_err() {
        ctx.violation(format!("{}|{}|draw-error", tname, what), case, || "draw returned Err without injected fault".into());
        return;
    }
    for (tk, log) in [("draw_iter-only", it.log()), ("native", nt.log())] {
        if !log.map.same(want_unb) {
            let d = log.map.first_diff(want_unb);
            let kind = if log.map.len() > want_unb.len() { "extra-pixels" } else if log.map.len() < want_unb.len() { "missing-pixels" } else { "wrong-colours" };
            ctx.violation(format!("{}|{}|map-{}", tname, what, kind), case, || {
                format!("{} target: drawn map differs from pixel data at {:?} (x, y, drawn, expected); drawn {} px, expected {} px\ndrawn:\n{}expected:\n{}", tk, d, log.map.len(), want_unb.len(), log.map.ascii(24), want_unb.ascii(24))
            });
        }
    }
    // the colour stream handed to fill_contiguous has exactly width x height colours
    for e in &nt.log().events {
        if e.kind == Kind::FillContiguous {
            let a = e.area.unwrap();
            let want = a.2 as u64 * a.3 as u64;
            ctx.count("fill_contiguous_calls_observed", 1);
            ctx.count("colours_drained", e.n);
            if e.n != want {
                let k = if e.n == want + a.2 as u64 { "one-extra-row" } else if e.n > want { "too-many" } else { "too-few" };
                ctx.violation(format!("image|{}|stream-length-{}", what, k), case, || format!("fill_contiguous(area {:?}) was handed {} colours, expected {}", a, e.n, want));
            }
            if want != want_area && want_area != u64::MAX {
                ctx.violation(format!("image|{}|fill-area-size", what), case, || format!("fill_contiguous area {:?}, expected {} pixels", a, want_area));
            }
        }
    }
    // bounded targets (edges coinciding with / cutting through the image, only its first row and
    // column visible): a draw_iter-only target, and a native target that skips the colours of the
    // invisible points in bulk with Iterator::nth instead of pulling them one by one
    if let Some(boxes) = egmon::target::cut_boxes(want_unb) {
        ctx.eval();
        let bx = boxes[(want_unb.hash() / 13 % 5) as usize];
        let want_in = egmon::target::restrict(want_unb, &bx);
        let mut ib = IterTarget::<C>::new(bx);
        // (every second one consumes what it receives with for_each instead of a for loop)
        ib.log_mut().internal_iteration = want_unb.hash() / 5 % 2 == 0;
        let mut sb = NativeTarget::<C>::new(bx);
        sb.log_mut().skip_invisible_with_nth = true;
        let _ = d.draw(&mut ib);
        let _ = d.draw(&mut sb);
        for (tk, log) in [("draw_iter-only", ib.log()), ("native, skipping with nth", sb.log())] {
            if !log.map.same(&want_in) {
                ctx.violation(format!("{}|{}|bounded-map{}", tname, what, if tk.starts_with("native") { "-skipping-with-nth" } else { "" }), || format!("{} on target box {:?}", case(), egmon::target::rt(&bx)), || {
                    format!("{} target differs at {:?} (x, y, drawn, expected)\ndrawn:\n{}expected:\n{}", tk, log.map.first_diff(&want_in), log.map.ascii(24), want_in.ascii(24))
                });
                break;
            }
        }
        ctx.count("bounded_target_draws", 2);
    }
    ctx.distinct("pixel_maps", it.log().map.hash());
}

fn one_case<C, O>(ctx: &mut Ctx, tname: &'static str, w: u32, h: u32, rng: &mut Rng)
where
    C: Col,
    O: DataOrder,
    for<'a> RawDataSlice<'a, C::Raw, O>: IntoIterator<Item = C::Raw>,
{
    let bpp = C::bits();
    let alt = O::IS_ALTERNATE_ORDER;
    let len = stride(w, bpp) * h as usize;
    let data = rng.bytes(len);
    let o = Point::new(rng.i32r(-20, 20), rng.i32r(-20, 20));
    let base = format!("{} {}x{} data {:02x?}", tname, w, h, &data[..data.len().min(40)]);
    // --- ImageRaw::new accepts exactly buffers of the required length
    ctx.eval();
    for l in [len, len + 1, len.saturating_sub(1), 0, len + stride(w, bpp), len * 2 + 3] {
        let buf = vec![0u8; l];
        let r = ImageRaw::<C, O>::new(&buf, Size::new(w, h));
        if r.is_ok() != (l == len) {
            ctx.violation(format!("{}|new-length-check", tname), || format!("{} buffer length {}", base, l), || format!("ImageRaw::new is_ok = {}, required length {}", r.is_ok(), len));
        }
    }
    let Ok(raw) = ImageRaw::<C, O>::new(&data, Size::new(w, h)) else {
        return;
    };
    let img = Img { data: &data, w, h, bpp, alt };
    // --- pixel(p): model inside, None exactly outside
    ctx.eval();
    let mut probes: Vec<(i32, i32)> = Vec::new();
    for y in -2..h as i32 + 2 {
        for x in -2..w as i32 + 2 {
            probes.push((x, y));
        }
    }
    probes.extend([(i32::MIN, 0), (0, i32::MIN), (i32::MAX, 0), (0, i32::MAX), (w as i32, 0), (0, h as i32), (-1, -1)]);
    for (x, y) in probes {
        let got = raw.pixel(Point::new(x, y)).map(|c| c.to_u32());
        let inside = x >= 0 && y >= 0 && (x as u32) < w && (y as u32) < h;
        let want = if inside { Some(C::from_u32(model_pixel(&data, w, bpp, alt, x as u32, y as u32)).to_u32()) } else { None };
        if got != want {
            let k = if inside && got.is_some() { "wrong-value" } else if inside { "none-inside" } else { "some-outside" };
            ctx.violation(format!("{}|pixel-{}", tname, k), || format!("{} pixel(({},{}))", base, x, y), || format!("got {:x?} expected {:x?}", got, want));
            break;
        }
    }
    if raw.size() != Size::new(w, h) || raw.bounding_box() != rect(0, 0, w, h) {
        ctx.violation(format!("{}|dimensions", tname), || base.clone(), || format!("size {:?}", raw.size()));
    }
    // --- Image at offset o
    let full = if w > 0 && h > 0 { Some((0, 0, w as i64, h as i64)) } else { None };
    let image = Image::new(&raw, o);
    let want = img.expected::<C>(full, o, None);
    if image.bounding_box() != rect(o.x, o.y, w, h) {
        ctx.violation(format!("{}|image-bounding-box", tname), || base.clone(), || format!("{:?}", image.bounding_box()));
    }
    check_draw::<C, _>(ctx, tname, "image", &image, &want, w as u64 * h as u64, &|| format!("{} Image at ({},{})", base, o.x, o.y));
    // the same offset reached in two steps: Image::new at o1, then moved by o - o1 with translate / translate_mut
    {
        use embedded_graphics::transform::Transform;
        let o1 = Point::new(rng.i32r(-9, 9), rng.i32r(-9, 9));
        let moved = Image::new(&raw, o1).translate(o - o1);
        let mut moved_mut = Image::new(&raw, o1);
        moved_mut.translate_mut(o - o1);
        for (how, im) in [("translate", &moved), ("translate_mut", &moved_mut)] {
            ctx.eval();
            let mut t = IterTarget::<C>::new(unbounded_box());
            let _ = im.draw(&mut t);
            if !t.log().map.same(&want) || im.bounding_box() != rect(o.x, o.y, w, h) {
                ctx.violation(format!("{}|image|offset-reached-with-{}", tname, how), || format!("{} Image::new at ({},{}) then {} by ({},{})", base, o1.x, o1.y, how, o.x - o1.x, o.y - o1.y), || format!("drawn map differs from the image at ({},{}) at {:?}; bounding box {:?}", o.x, o.y, t.log().map.first_diff(&want), im.bounding_box()));
            }
        }
    }
    // bounded target that cuts the image
    {
        ctx.eval();
        let bx = rect(o.x + rng.i32r(-2, w as i32), o.y + rng.i32r(-2, h as i32), rng.u32r(0, w + 3), rng.u32r(0, h + 3));
        let want_b = img.expected::<C>(full, o, Some(&bx));
        let mut it = IterTarget::<C>::new(bx);
        let mut nt = NativeTarget::<C>::new(bx);
        let _ = image.draw(&mut it);
        let _ = image.draw(&mut nt);
        for (tk, log) in [("draw_iter-only", it.log()), ("native", nt.log())] {
            if !log.map.same(&want_b) {
                ctx.violation(format!("{}|image|bounded-map", tname), || format!("{} Image at ({},{}) on target box {:?}", base, o.x, o.y, bx), || {
                    format!("{} target differs at {:?}\ndrawn:\n{}expected:\n{}", tk, log.map.first_diff(&want_b), log.map.ascii(24), want_b.ascii(24))
                });
            }
        }
    }
    // --- with_center
    ctx.eval();
    let c = Point::new(rng.i32r(-30, 30), rng.i32r(-30, 30));
    let centred = Image::with_center(&raw, c);
    let bb = centred.bounding_box();
    if bb.center() != c || bb.size != Size::new(w, h) {
        ctx.violation(format!("{}|with_center", tname), || format!("{} with_center(({},{}))", base, c.x, c.y), || format!("bounding box {:?} has centre {:?}", bb, bb.center()));
    } else {
        let want_c = img.expected::<C>(full, bb.top_left, None);
        check_draw::<C, _>(ctx, tname, "image-with_center", &centred, &want_c, w as u64 * h as u64, &|| format!("{} with_center(({},{}))", base, c.x, c.y));
    }
    // --- sub images (and nested sub images)
    for _ in 0..3 {
        let a1 = sub_area(rng, w, h);
        let sub = raw.sub_image(&a1);
        let eff1 = isect(r64(&a1), (0, 0, w as i64, h as i64));
        let want_size = eff1.map(|e| (e.2 as u32, e.3 as u32));
        ctx.eval();
        let got_size = sub.size();
        let size_ok = match want_size {
            Some((ww, hh)) => got_size == Size::new(ww, hh),
            None => got_size.width == 0 || got_size.height == 0,
        };
        let sub_case = || format!("{} sub_image({:?}) at ({},{})", base, a1, o.x, o.y);
        if !size_ok {
            ctx.violation(format!("{}|sub-image-size", tname), sub_case, || format!("size {:?}, expected {:?}", got_size, want_size));
            continue;
        }
        let want1 = img.expected::<C>(eff1, o, None);
        let simg = Image::new(&sub, o);
        check_draw::<C, _>(ctx, tname, "sub-image", &simg, &want1, eff1.map(|e| (e.2 * e.3) as u64).unwrap_or(u64::MAX), &sub_case);
        if eff1.is_some() {
            ctx.count("non_empty_sub_images", 1);
        }
        // nested: area relative to the sub image
        let (sw, sh) = (got_size.width, got_size.height);
        let a2 = sub_area(rng, sw, sh);
        let sub2 = sub.sub_image(&a2);
        let eff2 = match eff1 {
            Some(e1) => isect((a2.top_left.x as i64 + e1.0, a2.top_left.y as i64 + e1.1, a2.size.width as i64, a2.size.height as i64), e1),
            None => None,
        };
        ctx.eval();
        let want2 = img.expected::<C>(eff2, o, None);
        let simg2 = Image::new(&sub2, o);
        check_draw::<C, _>(ctx, tname, "nested-sub-image", &simg2, &want2, eff2.map(|e| (e.2 * e.3) as u64).unwrap_or(u64::MAX), &|| {
            format!("{} sub_image({:?}).sub_image({:?}) at ({},{})", base, a1, a2, o.x, o.y)
        });
        if eff2.is_some() {
            ctx.count("non_empty_nested_sub_images", 1);
        }
        // third level composes as well
        let s2 = sub2.size();
        let a3 = sub_area(rng, s2.width, s2.height);
        let sub3 = sub2.sub_image(&a3);
        let eff3 = match eff2 {
            Some(e2) => isect((a3.top_left.x as i64 + e2.0, a3.top_left.y as i64 + e2.1, a3.size.width as i64, a3.size.height as i64), e2),
            None => None,
        };
        let want3 = img.expected::<C>(eff3, o, None);
        check_draw::<C, _>(ctx, tname, "nested-sub-image-3", &Image::new(&sub3, o), &want3, eff3.map(|e| (e.2 * e.3) as u64).unwrap_or(u64::MAX), &|| {
            format!("{} sub_image({:?}).sub_image({:?}).sub_image({:?})", base, a1, a2, a3)
        });
    }
    if w >= 2 && h >= 2 {
        ctx.nontrivial(mix(mix(egmon::rng::hash_str(tname), ((w as u64) << 32) | h as u64), egmon::rng::hash_str(&format!("{:?}", data))));
    }
    if ctx.wants_sample() {
        ctx.sample(|| jobj! {"type" => tname, "size" => format!("{}x{}", w, h), "data" => format!("{:02x?}", data), "offset" => format!("{:?}", o), "drawn_pixels" => want.len() as u64});
    }
}

/// A sub-image whose first pixel lies at an *exact* special offset of the (padded) pixel stream:
/// a multiple of 2^16 - 1, 2^16, 2^16 + 1, a power of two or its neighbour (seeded `C09-13`: the
/// initial skip applied in steps of 65 535, one pixel too far for exact multiples only).
fn special_offset_case<C, O>(ctx: &mut Ctx, tname: &'static str, rng: &mut Rng)
where
    C: Col,
    O: DataOrder,
    for<'a> RawDataSlice<'a, C::Raw, O>: IntoIterator<Item = C::Raw>,
{
    let bpp = C::bits();
    let alt = O::IS_ALTERNATE_ORDER;
    let w = match rng.below(4) {
        0 => *rng.pick(&[255u32, 256, 257, 771, 1285, 4369]),
        1 => rng.u32r(1, 64),
        _ => rng.u32r(64, 1400),
    };
    // pixels per padded row
    let dw = (stride(w, bpp) * 8 / bpp as usize) as u64;
    let k = rng.u32r(1, 6) as u64;
    let t: u64 = match rng.below(8) {
        0 | 1 | 2 => k * 65_535,
        3 => k * 65_536,
        4 => k * 65_537,
        5 => 1u64 << rng.u32r(8, 18),
        6 => (1u64 << rng.u32r(8, 18)) - 1,
        _ => k * *rng.pick(&[255u64, 256, 4095, 4096, 32_767, 32_768]),
    };
    let (y, x) = ((t / dw) as u32, (t % dw) as u32);
    if x >= w {
        // the offset falls into the row padding: no pixel starts there
        ctx.count("special_offsets_in_row_padding", 1);
        return;
    }
    let hh = rng.u32r(1, 3);
    let h = y + hh;
    let len = stride(w, bpp) * h as usize;
    let data = rng.bytes(len);
    let o = Point::new(rng.i32r(-20, 20), rng.i32r(-20, 20));
    let Ok(raw) = ImageRaw::<C, O>::new(&data, Size::new(w, h)) else {
        ctx.violation(format!("{}|new-length-check", tname), || format!("{} {}x{} buffer length {}", tname, w, h, len), || "ImageRaw::new rejects a buffer of the required length".to_string());
        return;
    };
    let img = Img { data: &data, w, h, bpp, alt };
    let (sw, sh) = (rng.u32r(1, (w - x).min(6)), rng.u32r(1, hh));
    let a = rect(x as i32, y as i32, sw, sh);
    let eff = Some((x as i64, y as i64, sw as i64, sh as i64));
    let want = img.expected::<C>(eff, o, None);
    let base = format!("{} {}x{} (padded row {} pixels), first pixel of the sub-image at stream offset {}", tname, w, h, dw, t);
    ctx.eval();
    let sub = raw.sub_image(&a);
    check_draw::<C, _>(ctx, tname, "sub-image-at-special-offset", &Image::new(&sub, o), &want, (sw * sh) as u64, &|| format!("{} sub_image({:?}) at ({},{})", base, a, o.x, o.y));
    // the same area reached through a full-width strip
    let y0 = rng.u32r(0, y);
    let strip = raw.sub_image(&rect(0, y0 as i32, w, h - y0));
    let inner = rect(x as i32, (y - y0) as i32, sw, sh);
    let sub2 = strip.sub_image(&inner);
    ctx.eval();
    check_draw::<C, _>(ctx, tname, "nested-sub-image-at-special-offset", &Image::new(&sub2, o), &want, (sw * sh) as u64, &|| format!("{} sub_image({:?}).sub_image({:?}) at ({},{})", base, rect(0, y0 as i32, w, h - y0), inner, o.x, o.y));
    // and the pixel itself
    let got = raw.pixel(Point::new(x as i32, y as i32)).map(|c| c.to_u32());
    let wantp = Some(C::from_u32(model_pixel(&data, w, bpp, alt, x, y)).to_u32());
    if got != wantp {
        ctx.violation(format!("{}|pixel-wrong-value", tname), || format!("{} pixel(({},{}))", base, x, y), || format!("got {:x?} expected {:x?}", got, wantp));
    }
    ctx.nontrivial(mix(mix(egmon::rng::hash_str(tname), t), ((w as u64) << 32) | x as u64));
    ctx.count("sub_images_at_special_stream_offsets", 1);
}

fn sweep<C, O>(run: &Run)
where
    C: Col,
    O: DataOrder,
    for<'a> RawDataSlice<'a, C::Raw, O>: IntoIterator<Item = C::Raw>,
{
    let tname: &'static str = Box::leak(format!("{}bpp/{}/{}", C::bits(), C::name(), if O::IS_ALTERNATE_ORDER { "BigEndianLsb0" } else { "LittleEndianMsb0" }).into_boxed_str());
    let (mw, mh, reps) = run.tier((12u32, 8u32, 40u64), (33u32, 17u32, 1500u64));
    let grid = (mw as u64 + 1) * (mh as u64 + 1);
    run.generate(tname, grid * reps, false, 0.15, |ctx, idx, rng| {
        let g = idx % grid;
        let (w, h) = ((g % (mw as u64 + 1)) as u32, (g / (mw as u64 + 1)) as u32);
        one_case::<C, O>(ctx, tname, w, h, rng);
    });
    // wide parents: row lengths and skips beyond 255 pixels/bytes (8-bit counters, strides)
    const WIDE: [u32; 12] = [255, 256, 257, 258, 263, 264, 300, 320, 511, 513, 640, 1000];
    let wname: &'static str = Box::leak(format!("{}-wide-parents", tname).into_boxed_str());
    let wreps = run.tier(2u64, 40u64);
    run.generate(wname, WIDE.len() as u64 * 3 * wreps, false, 0.1, |ctx, idx, rng| {
        let w = WIDE[(idx % WIDE.len() as u64) as usize] + if idx % 5 == 4 { rng.u32r(0, 9) } else { 0 };
        let h = 2 + ((idx / WIDE.len() as u64) % 3) as u32;
        // every fourth case is the transposed shape: more than 255 rows of a few pixels
        if idx % 4 == 3 {
            one_case::<C, O>(ctx, tname, h + rng.u32r(0, 5), w.min(520), rng);
            ctx.count("tall_parent_cases", 1);
        } else {
            one_case::<C, O>(ctx, tname, w, h, rng);
            ctx.count("wide_parent_cases", 1);
        }
    });
    // one dimension beyond 16 bits: 65 535..=65 540 and 131 073 pixels wide (1..=3 rows) or tall
    // (1..=3 columns) - counters and strides narrower than u32 (seeded `C09-12`)
    const HUGE: [u32; 6] = [65_535, 65_536, 65_537, 65_538, 70_001, 131_073];
    let hname: &'static str = Box::leak(format!("{}-beyond-16-bit", tname).into_boxed_str());
    let hreps = run.tier(1u64, 6u64);
    run.generate(hname, HUGE.len() as u64 * hreps, false, 0.1, |ctx, idx, rng| {
        let long = HUGE[(idx % HUGE.len() as u64) as usize] + if idx >= HUGE.len() as u64 { rng.u32r(0, 300) } else { 0 };
        let short = rng.u32r(1, 3);
        if rng.chance(1, 2) {
            one_case::<C, O>(ctx, tname, long, short, rng);
        } else {
            one_case::<C, O>(ctx, tname, short, long, rng);
        }
        ctx.count("images_with_a_side_beyond_16_bits", 1);
    });
    let sname: &'static str = Box::leak(format!("{}-special-stream-offsets", tname).into_boxed_str());
    let sreps = run.tier(60u64, 6000u64);
    run.generate(sname, sreps, false, 0.1, |ctx, _idx, rng| special_offset_case::<C, O>(ctx, tname, rng));
}

fn main() {
    main_with("c09", "exploration", |run| {
        run.set_rule(
            "7 raw widths (1,2,4,8,16,24 bits with library colours, 32 bits with a harness colour over RawU32) x 2 data orders x all image sizes 0..=W x 0..=H x random bytes x random draw offsets x \
             sub-image areas (inside, overlapping each edge, outside, zero-sized) nested up to three times, plus wide parents (255..=1009 pixels x 2..=4 rows, so that row strides and skips exceed 255) and tall ones (2..=9 pixels x 255..=520 rows); each drawn on an unbounded draw_iter-only target, an unbounded native target that drains the colour \
             stream, and bounded targets cutting the image. Non-trivial = image at least 2x2; distinct = distinct (type, order, size, bytes).",
        );
        run.assume("layout model written from the documentation (rows padded to whole bytes; LittleEndianMsb0 / BigEndianLsb0 as documented)");
        macro_rules! both {
            ($c:ty) => {
                sweep::<$c, LittleEndianMsb0>(run);
                sweep::<$c, BigEndianLsb0>(run);
            };
        }
        both!(BinaryColor);
        both!(Gray2);
        both!(Gray4);
        both!(Gray8);
        both!(Rgb565);
        both!(Rgb888);
        both!(C32);
        // a few more colour types over the same raw widths (unused raw bits are dropped by From<Raw>)
        both!(Rgb332);
        both!(Rgb555);
        both!(Bgr666);
    })
}
