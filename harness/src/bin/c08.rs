//! C08 — rendering is total and allocation-free on display-scale inputs.
//! Monitors: checked build (overflow checks + debug assertions), panic monitor with attribution,
//! counting global allocator armed around every library call, iterator step budgets.
use egmon::{
    adapters::{Ad, TargetUser},
    jobj, main_with, mon,
    target::rect,
    zoo::{self, Desc, Dr, FontD, ImageD, LhD, Prim, StyleD, TextD, Visitor, ZCol},
    Ctx, Rng, Run,
};
use embedded_graphics::{
    framebuffer::Framebuffer,
    geometry::AngleUnit,
    image::{GetPixel, ImageDrawableExt, ImageRaw},
    iterator::raw::RawDataSlice,
    mono_font::MonoTextStyleBuilder,
    pixelcolor::{
        raw::{BigEndianLsb0, LittleEndianMsb0, RawData, RawU1, RawU16, RawU2, RawU24, RawU32, RawU4, RawU8},
        *,
    },
    prelude::*,
    primitives::{Arc, Circle, ContainsPoint, CornerRadii, Ellipse, Line, OffsetOutline, PointsIter, Polyline, Rectangle, RoundedRectangle, Sector, Triangle},
    text::{Alignment, Baseline, LineHeight, Text, TextStyleBuilder},
    Pixel,
};
use std::convert::Infallible;

/// target that only counts (never allocates); native fills
struct NullNative<C> {
    bbox: Rectangle,
    items: u64,
    budget: u64,
    over: bool,
    calls: u64,
    _c: core::marker::PhantomData<C>,
}
/// same, but only draw_iter (trait defaults for the fills)
struct NullIter<C>(NullNative<C>);

impl<C> NullNative<C> {
    fn new(bbox: Rectangle, budget: u64) -> Self {
        NullNative { bbox, items: 0, budget, over: false, calls: 0, _c: core::marker::PhantomData }
    }
    fn eat<I: IntoIterator>(&mut self, it: I) {
        for _ in it {
            self.items += 1;
            if self.items > self.budget {
                self.over = true;
                break;
            }
        }
    }
}
impl<C> Dimensions for NullNative<C> {
    fn bounding_box(&self) -> Rectangle {
        self.bbox
    }
}
impl<C> Dimensions for NullIter<C> {
    fn bounding_box(&self) -> Rectangle {
        self.0.bbox
    }
}
impl<C: PixelColor> DrawTarget for NullNative<C> {
    type Color = C;
    type Error = Infallible;
    fn draw_iter<I: IntoIterator<Item = Pixel<C>>>(&mut self, pixels: I) -> Result<(), Infallible> {
        self.calls += 1;
        self.eat(pixels);
        Ok(())
    }
    fn fill_contiguous<I: IntoIterator<Item = C>>(&mut self, _area: &Rectangle, colors: I) -> Result<(), Infallible> {
        self.calls += 1;
        self.eat(colors);
        Ok(())
    }
    fn fill_solid(&mut self, _area: &Rectangle, _color: C) -> Result<(), Infallible> {
        self.calls += 1;
        self.items += 1;
        if self.items > self.budget {
            self.over = true;
        }
        Ok(())
    }
    fn clear(&mut self, _color: C) -> Result<(), Infallible> {
        self.calls += 1;
        Ok(())
    }
}
impl<C: PixelColor> DrawTarget for NullIter<C> {
    type Color = C;
    type Error = Infallible;
    fn draw_iter<I: IntoIterator<Item = Pixel<C>>>(&mut self, pixels: I) -> Result<(), Infallible> {
        self.0.calls += 1;
        self.0.eat(pixels);
        Ok(())
    }
}

/// runs one library call under the panic and allocation monitors
fn monitored<T>(ctx: &mut Ctx, what: &str, case: &dyn Fn() -> String, f: impl FnOnce() -> T) -> Option<T> {
    ctx.eval();
    ctx.count("library_calls_monitored", 1);
    match mon::guard(|| mon::count_allocs(f)) {
        Ok((v, allocs)) => {
            if allocs > 0 {
                ctx.violation(format!("heap-allocation|{}", what), || case(), || format!("{} allocation(s) during {}", allocs, what));
            }
            Some(v)
        }
        Err(pi) => {
            ctx.count("panics_caught", 1);
            let c = case();
            ctx.panic(&pi, || format!("{} during {}", c, what));
            None
        }
    }
}

fn budget_for(bb: &Rectangle, extra: u32) -> u64 {
    (bb.size.width as u64 + 2 * extra as u64 + 16) * (bb.size.height as u64 + 2 * extra as u64 + 16) * 8 + 4096
}

struct DrawUser<'d, 'c, 'r, C: ZCol, D: Dr<C>> {
    d: &'d D,
    ctx: &'c mut Ctx<'r>,
    what: &'static str,
    case: &'d dyn Fn() -> String,
    _c: core::marker::PhantomData<C>,
}
impl<'d, 'c, 'r, C: ZCol, D: Dr<C>> TargetUser<C, Infallible> for DrawUser<'d, 'c, 'r, C, D> {
    fn use_target<T: DrawTarget<Color = C, Error = Infallible>>(&mut self, t: &mut T) {
        let d = self.d;
        monitored(self.ctx, self.what, self.case, || {
            let _ = d.draw_on(t);
            let _ = t.bounding_box();
        });
    }
}

struct V<'c, 'r, 'x> {
    ctx: &'c mut Ctx<'r>,
    rng: &'x mut Rng,
    stroke_extra: u32,
}

fn gen_box(rng: &mut Rng) -> Rectangle {
    match rng.below(6) {
        0 => rect(0, 0, 320, 240),
        1 => rect(0, 0, 64, 64),
        2 => rect(rng.biased_i32(1024), rng.biased_i32(1024), rng.biased_u32(1024), rng.biased_u32(1024)),
        3 => rect(0, 0, 0, 0),
        4 => egmon::target::unbounded_box(),
        _ => rect(0, 0, 1024, 1024),
    }
}

/// adapter stacks: a fixed set of 7 shapes (direct, each adapter alone, three nestings) keeps the
/// number of monomorphised draw paths small; parameters are display-scale and boundary-biased
fn gen_stack(rng: &mut Rng) -> Vec<Ad> {
    let a = |rng: &mut Rng| rect(rng.biased_i32(1024), rng.biased_i32(1024), rng.biased_u32(1024), rng.biased_u32(1024));
    let o = |rng: &mut Rng| Point::new(rng.biased_i32(1024), rng.biased_i32(1024));
    match rng.below(10) {
        0..=3 => vec![],
        4 => vec![Ad::Tr(o(rng))],
        5 => vec![Ad::Cr(a(rng))],
        6 => vec![Ad::Cl(a(rng))],
        7 => vec![Ad::Tr(o(rng)), Ad::Cl(a(rng))],
        8 => vec![Ad::Cl(a(rng)), Ad::Cr(a(rng))],
        _ => vec![Ad::Cr(a(rng)), Ad::Tr(o(rng)), Ad::Cl(a(rng))],
    }
}

/// instantiates only the 7 stack shapes above
fn with_few_stacks<C: PixelColor, P: DrawTarget<Color = C, Error = Infallible>, U: TargetUser<C, Infallible>>(stack: &[Ad], parent: &mut P, u: &mut U) {
    use embedded_graphics::draw_target::DrawTargetExt;
    match stack {
        [] => u.use_target(parent),
        [Ad::Tr(o)] => u.use_target(&mut parent.translated(*o)),
        [Ad::Cr(a)] => u.use_target(&mut parent.cropped(a)),
        [Ad::Cl(a)] => u.use_target(&mut parent.clipped(a)),
        [Ad::Tr(o), Ad::Cl(a)] => u.use_target(&mut parent.translated(*o).clipped(a)),
        [Ad::Cl(a), Ad::Cr(b)] => u.use_target(&mut parent.clipped(a).cropped(b)),
        [Ad::Cr(a), Ad::Tr(o), Ad::Cl(b)] => u.use_target(&mut parent.cropped(a).translated(*o).clipped(b)),
        _ => u.use_target(parent),
    }
}

impl<'c, 'r, 'x, C: ZCol> Visitor<C> for V<'c, 'r, 'x> {
    type Out = ();
    fn visit<D: Dr<C>>(&mut self, d: &D, desc: &Desc) {
        let rng = &mut *self.rng;
        let case = || desc.text();
        let Some(bb) = monitored(self.ctx, "bounding_box", &case, || d.bbox()) else {
            return;
        };
        let budget = budget_for(&bb, self.stroke_extra) + desc.overlap_allowance();
        let area = bb.size.width as u64 * bb.size.height as u64;
        // draw on a native counting target through a random adapter stack
        let stack = gen_stack(rng);
        let bx = gen_box(rng);
        let case2 = || format!("{} on target box {:?} via {}", desc.text(), egmon::target::rt(&bx), egmon::adapters::stack_text(&stack));
        let mut nt = NullNative::<C>::new(bx, budget);
        {
            let mut u = DrawUser { d, ctx: &mut *self.ctx, what: "draw (native fills)", case: &case2, _c: core::marker::PhantomData };
            with_few_stacks(&stack, &mut nt, &mut u);
        }
        if nt.over {
            self.ctx.violation(format!("{}|draw-exceeds-step-budget", desc.kind()), case2, || format!("more than {} items/calls", budget));
        }
        self.ctx.count("target_calls_observed", nt.calls);
        // default-fill target: O(area), only for moderate sizes
        if area <= 150_000 {
            let mut it = NullIter(NullNative::<C>::new(bx, budget));
            {
                let mut u = DrawUser { d, ctx: &mut *self.ctx, what: "draw (default fills)", case: &case2, _c: core::marker::PhantomData };
                // default-fill target: drawn directly (the adapters are exercised above)
                u.use_target(&mut it);
            }
            if it.0.over {
                self.ctx.violation(format!("{}|draw-exceeds-step-budget", desc.kind()), case2, || format!("more than {} items", budget));
            }
            // pixels()
            if let Some(Some(n)) = monitored(self.ctx, "pixels()", &case, || d.pixels_count(budget as usize)) {
                if n as u64 > budget {
                    self.ctx.violation(format!("{}|pixels-exceeds-step-budget", desc.kind()), case, || format!("more than {} items", budget));
                }
                self.ctx.count("pixels_iterated", n as u64);
            }
        }
        // translate
        let by = Point::new(rng.biased_i32(1024), rng.biased_i32(1024));
        monitored(self.ctx, "translate", &case, || {
            let t = d.translated(by);
            let _ = t.bbox();
        });
        if area > 0 {
            self.ctx.nontrivial(desc.hash() ^ egmon::rng::hash_str(C::name()));
        }
        if self.ctx.wants_sample() {
            self.ctx.sample(|| jobj! {"drawable" => desc.text(), "bounding_box" => format!("{:?}", bb), "stack" => egmon::adapters::stack_text(&stack)});
        }
    }
}

// ---------------------------------------------------------------- display-scale generators

fn bp(rng: &mut Rng) -> (i32, i32) {
    (rng.biased_i32(1024), rng.biased_i32(1024))
}
fn bs(rng: &mut Rng) -> u32 {
    // mostly small, sometimes display scale
    match rng.below(10) {
        0..=4 => rng.u32r(0, 40),
        5..=7 => rng.biased_u32(1024),
        _ => rng.u32r(0, 1024),
    }
}

fn gen_prim_display(rng: &mut Rng, which: Option<usize>) -> Prim {
    match which.unwrap_or_else(|| rng.below(9) as usize) {
        0 => Prim::Rect { tl: bp(rng), size: (bs(rng), bs(rng)) },
        1 => Prim::Circle { tl: bp(rng), d: bs(rng) },
        2 => Prim::Ellipse { tl: bp(rng), size: (bs(rng), bs(rng)) },
        3 => {
            let r = |rng: &mut Rng| (bs(rng), bs(rng));
            let radii = if rng.chance(1, 2) {
                let e = r(rng);
                [e; 4]
            } else {
                [r(rng), r(rng), r(rng), r(rng)]
            };
            Prim::RRect { tl: bp(rng), size: (bs(rng), bs(rng)), radii }
        }
        4 => {
            let a = bp(rng);
            let v = |rng: &mut Rng| if rng.chance(1, 8) { a } else if rng.chance(1, 2) { bp(rng) } else { (a.0 + rng.i32r(-60, 60), a.1 + rng.i32r(-60, 60)) };
            Prim::Tri { p: [a, v(rng), v(rng)] }
        }
        5 => {
            let a = bp(rng);
            let b = if rng.chance(1, 8) { a } else if rng.chance(1, 2) { bp(rng) } else { (a.0 + rng.i32r(-60, 60), a.1 + rng.i32r(-60, 60)) };
            Prim::Line { a, b }
        }
        6 => {
            let n = rng.usizer(0, 6);
            let a = bp(rng);
            let pts = (0..n).map(|_| if rng.chance(1, 3) { bp(rng) } else { (a.0 + rng.i32r(-80, 80), a.1 + rng.i32r(-80, 80)) }).collect();
            Prim::Polyline { pts, tr: if rng.chance(1, 2) { (0, 0) } else { bp(rng) } }
        }
        7 => Prim::Arc { tl: bp(rng), d: bs(rng), start: zoo::gen_angle(rng), sweep: zoo::gen_angle(rng) },
        _ => Prim::Sector { tl: bp(rng), d: bs(rng), start: zoo::gen_angle(rng), sweep: zoo::gen_angle(rng) },
    }
}

fn gen_style_display(rng: &mut Rng) -> StyleD {
    StyleD {
        fill: if rng.chance(1, 2) { Some(1) } else { None },
        stroke: if rng.chance(3, 4) { Some(2) } else { None },
        width: match rng.below(6) {
            0 => 0,
            1 => 1,
            2 => rng.u32r(2, 8),
            3 => 128,
            _ => rng.u32r(0, 128),
        },
        align: rng.below(3) as u8,
        dotted: rng.chance(1, 4),
    }
}

/// queries on the bare primitive: constructor, bounding_box, contains, points, offset
fn prim_queries(ctx: &mut Ctx, p: &Prim, rng: &mut Rng) {
    let case = || format!("{:?}", p);
    let pt = |q: (i32, i32)| Point::new(q.0, q.1);
    let sz = |s: (u32, u32)| Size::new(s.0, s.1);
    let probes: Vec<Point> = (0..6).map(|_| Point::new(rng.biased_i32(1024), rng.biased_i32(1024))).collect();
    fn go<P: PointsIter + Dimensions>(ctx: &mut Ctx, case: &dyn Fn() -> String, p: &P, contains: Option<&dyn Fn(&P, Point) -> bool>, probes: &[Point], kind: &str) {
        let Some(bb) = monitored(ctx, "Primitive::bounding_box", case, || p.bounding_box()) else {
            return;
        };
        let area = bb.size.width as u64 * bb.size.height as u64;
        if let Some(cf) = contains {
            monitored(ctx, "contains", case, || {
                let mut n = 0;
                for q in probes {
                    n += cf(p, *q) as u32;
                }
                // also probe around the bounding box
                for q in [bb.top_left, bb.center(), bb.top_left + bb.size, bb.top_left - Point::new(1, 1)] {
                    n += cf(p, q) as u32;
                }
                n
            });
        }
        if area <= 300_000 {
            let budget = area + (bb.size.width as u64 + bb.size.height as u64) * 4 + 64;
            if let Some(n) = monitored(ctx, "points()", case, || p.points().take(budget as usize + 1).count()) {
                if n as u64 > budget {
                    ctx.violation(format!("{}|points-exceeds-step-budget", kind), || case(), || format!("more than {} points", budget));
                }
                ctx.count("points_iterated", n as u64);
            }
        }
    }
    match p {
        Prim::Rect { tl, size } => go(ctx, &case, &Rectangle::new(pt(*tl), sz(*size)), Some(&|s: &Rectangle, q| s.contains(q)), &probes, "rectangle"),
        Prim::Circle { tl, d } => {
            let c = Circle::new(pt(*tl), *d);
            go(ctx, &case, &c, Some(&|s: &Circle, q| s.contains(q)), &probes, "circle");
            monitored(ctx, "offset", &case, || (c.offset(rng.biased_i32(1024)), Circle::with_center(pt(*tl), *d).center()));
        }
        Prim::Ellipse { tl, size } => {
            let e = Ellipse::new(pt(*tl), sz(*size));
            go(ctx, &case, &e, Some(&|s: &Ellipse, q| s.contains(q)), &probes, "ellipse");
            monitored(ctx, "offset", &case, || (e.offset(rng.biased_i32(1024)), Ellipse::with_center(pt(*tl), sz(*size)).center()));
        }
        Prim::RRect { tl, size, radii } => {
            let r = RoundedRectangle::new(Rectangle::new(pt(*tl), sz(*size)), CornerRadii { top_left: sz(radii[0]), top_right: sz(radii[1]), bottom_right: sz(radii[2]), bottom_left: sz(radii[3]) });
            go(ctx, &case, &r, Some(&|s: &RoundedRectangle, q| s.contains(q)), &probes, "rounded_rectangle");
            monitored(ctx, "confine_radii/offset", &case, || (r.confine_radii(), r.offset(rng.biased_i32(1024))));
        }
        Prim::Tri { p } => go(ctx, &case, &Triangle::new(pt(p[0]), pt(p[1]), pt(p[2])), Some(&|s: &Triangle, q| s.contains(q)), &probes, "triangle"),
        Prim::Line { a, b } => {
            let l = Line::new(pt(*a), pt(*b));
            go(ctx, &case, &l, None, &probes, "line");
            monitored(ctx, "Line::midpoint/delta", &case, || (l.midpoint(), l.delta()));
        }
        Prim::Polyline { pts, tr } => {
            let v: Vec<Point> = pts.iter().map(|&q| pt(q)).collect();
            let pl = Polyline::new(&v).translate(pt(*tr));
            go(ctx, &case, &pl, None, &probes, "polyline");
        }
        Prim::Arc { tl, d, start, sweep } => {
            let a = Arc::new(pt(*tl), *d, start.deg(), sweep.deg());
            go(ctx, &case, &a, None, &probes, "arc");
            monitored(ctx, "Arc::center/to_circle", &case, || (a.center(), a.to_circle()));
        }
        Prim::Sector { tl, d, start, sweep } => {
            let s = Sector::new(pt(*tl), *d, start.deg(), sweep.deg());
            go(ctx, &case, &s, Some(&|s: &Sector, q| s.contains(q)), &probes, "sector");
            monitored(ctx, "offset", &case, || s.offset(rng.biased_i32(1024)));
        }
    }
}

/// the remaining public constructors and small queries, over display-scale values
fn constructors(ctx: &mut Ctx, rng: &mut Rng) {
    use embedded_graphics::geometry::{AnchorPoint, AnchorX, AnchorY};
    use embedded_graphics::primitives::CornerRadiiBuilder;
    let p = |rng: &mut Rng| Point::new(rng.biased_i32(1024), rng.biased_i32(1024));
    let (a, b, c) = (p(rng), p(rng), p(rng));
    let (w, h, d) = (rng.biased_u32(1024), rng.biased_u32(1024), rng.biased_u32(1024));
    let (s0, s1) = (zoo::gen_angle(rng), zoo::gen_angle(rng));
    let n = rng.biased_i32(1024);
    let case = || format!("constructors a={:?} b={:?} c={:?} w={} h={} d={} angles {} {} n={}", (a.x, a.y), (b.x, b.y), (c.x, c.y), w, h, d, s0, s1, n);
    monitored(ctx, "alternative constructors", &case, || {
        let r = Rectangle::with_corners(a, b);
        let r2 = Rectangle::with_center(c, Size::new(w, h));
        let mut acc = r.center() + r2.center() + r.anchor_point(AnchorPoint::BottomRight);
        acc += Point::new(r2.anchor_x(AnchorX::Center), r2.anchor_y(AnchorY::Bottom));
        let r3 = r2.resized(Size::new(h, w), AnchorPoint::Center).offset(n.clamp(-1024, 1024)).envelope(&r).intersection(&r2);
        acc += r3.top_left + r2.resized_width(d, AnchorX::Right).top_left + r2.resized_height(d, AnchorY::Center).top_left;
        acc += r3.bottom_right().unwrap_or_default();
        let _ = (r3.rows(), r3.columns(), r3.is_zero_sized());
        let ci = Circle::with_center(a, d);
        acc += ci.center() + ci.bounding_box().top_left;
        let el = Ellipse::with_center(b, Size::new(w, h));
        acc += el.center();
        let arc = Arc::with_center(a, d, s0.deg(), s1.deg());
        let arc2 = Arc::from_circle(ci, s1.deg(), s0.deg());
        acc += arc.center() + arc2.to_circle().center() + arc.bounding_box().top_left;
        let se = Sector::with_center(b, d, s0.deg(), s1.deg());
        let se2 = Sector::from_circle(ci, s0.deg(), s1.deg());
        acc += se.center() + se2.to_circle().center();
        let l = Line::with_delta(a, Point::new(n, -n));
        acc += l.midpoint() + l.delta() + l.bounding_box().top_left;
        let t = Triangle::from_slice(&[a, b, c]);
        acc += t.bounding_box().top_left;
        let radii = CornerRadiiBuilder::new().all(Size::new(w, h)).top(Size::new(d, d)).right(Size::new(h, w)).bottom_left(Size::new(w, d)).top_right(Size::new(d, h)).build();
        let rr = RoundedRectangle::new(r2, radii);
        let rr2 = RoundedRectangle::with_equal_corners(r, Size::new(d, w));
        acc += rr.confine_radii().bounding_box().top_left + rr2.bounding_box().top_left;
        let _ = (s0.deg().normalize(), s1.deg().abs(), s0.deg().to_radians(), s1.deg().to_degrees());
        acc
    });
    ctx.nontrivial(egmon::rng::hash_str(&case()));
}

fn gen_text_display(rng: &mut Rng) -> Desc {
    let d = zoo::gen_text(rng, (1, 5));
    if let Desc::Text(mut t) = d {
        t.at = bp(rng);
        t.lh = match rng.below(4) {
            0 => LhD::Pixels(rng.biased_u32(1024)),
            1 => LhD::Percent(rng.u32r(0, 400)),
            2 => LhD::Pixels(0),
            _ => LhD::Percent(100),
        };
        Desc::Text(t)
    } else {
        d
    }
}

/// text with the null font (style built without a font) and degenerate strings
fn null_font_text(ctx: &mut Ctx, rng: &mut Rng) {
    let s = *rng.pick(&["", "a", "ab\ncd", "\n", "\r\n", "xyz\n"]);
    let at = Point::new(rng.biased_i32(1024), rng.biased_i32(1024));
    let case = || format!("Text {:?} at {:?} with the null font", s, (at.x, at.y));
    let mut b = MonoTextStyleBuilder::<Rgb565>::new();
    if rng.chance(1, 2) {
        b = b.text_color(Rgb565::RED);
    }
    if rng.chance(1, 2) {
        b = b.background_color(Rgb565::BLUE);
    }
    if rng.chance(1, 2) {
        b = b.underline().strikethrough();
    }
    let style = b.build();
    let ts = TextStyleBuilder::new()
        .alignment(*rng.pick(&[Alignment::Left, Alignment::Center, Alignment::Right]))
        .baseline(*rng.pick(&[Baseline::Top, Baseline::Bottom, Baseline::Middle, Baseline::Alphabetic]))
        .line_height(if rng.chance(1, 2) { LineHeight::Pixels(rng.biased_u32(1024)) } else { LineHeight::Percent(rng.u32r(0, 400)) })
        .build();
    let text = Text::with_text_style(s, at, style, ts);
    monitored(ctx, "null font: bounding_box + draw", &case, || {
        let bb = text.bounding_box();
        let mut t = NullNative::<Rgb565>::new(rect(0, 0, 320, 240), 100_000);
        let next = text.draw(&mut t);
        (bb, next)
    });
    ctx.nontrivial(egmon::rng::hash_str(&case()));
}

/// Fonts whose glyph mapping designates cells beyond their atlas image (a larger mapping combined
/// with a smaller image, a replacement index past the last glyph): such glyphs are dropped, nothing
/// may panic, allocate or run away.
fn short_atlas_font_text(ctx: &mut Ctx, rng: &mut Rng) {
    use embedded_graphics::mono_font::{mapping::StrGlyphMapping, DecorationDimensions, MonoFont};
    let (cw, ch) = (rng.u32r(1, 8), rng.u32r(1, 10));
    let per_row = *rng.pick(&[1u32, 4, 16, 31]);
    let rows = rng.u32r(0, 3);
    let (iw, ih) = (per_row * cw, rows * ch);
    let data = vec![0xA5u8; ((iw as usize + 7) / 8) * ih as usize];
    let replacement = *rng.pick(&[0usize, 31, 94, 95, 200, 4096]);
    let mapping = StrGlyphMapping::new("\0 ~", replacement);
    let Ok(image) = ImageRaw::<BinaryColor>::new(&data, Size::new(iw, ih)) else {
        ctx.count("short_atlas_image_rejected", 1);
        return;
    };
    let font = MonoFont {
        image,
        character_size: Size::new(cw, ch),
        character_spacing: rng.u32r(0, 2),
        baseline: rng.u32r(0, ch),
        strikethrough: DecorationDimensions::new(ch / 2, 1),
        underline: DecorationDimensions::new(ch + 1, 1),
        glyph_mapping: &mapping,
    };
    let glyphs_in_atlas = per_row * rows;
    // characters: inside the atlas, in the row directly after it, far beyond it, unmapped
    let mut s = String::new();
    for _ in 0..rng.usizer(0, 6) {
        let c = match rng.below(5) {
            0 => char::from_u32(0x20 + rng.u32r(0, glyphs_in_atlas.min(94))).unwrap_or(' '),
            1 => char::from_u32(0x20 + (glyphs_in_atlas + rng.u32r(0, per_row)).min(94)).unwrap_or('~'),
            2 => '~',
            3 => *rng.pick(&['\u{e9}', '\u{b0}', '\u{20ac}', '\n']),
            _ => char::from_u32(0x20 + rng.u32r(0, 94)).unwrap_or(' '),
        };
        s.push(c);
    }
    let at = Point::new(rng.i32r(-20, 60), rng.i32r(-20, 40));
    let case = || format!("Text {:?} at {:?}, font {}x{} cells, atlas {}x{} px ({} glyphs), mapping ' '..='~' with replacement index {}", s, (at.x, at.y), cw, ch, iw, ih, glyphs_in_atlas, replacement);
    let mut b = MonoTextStyleBuilder::<Rgb565>::new().font(&font);
    if rng.chance(3, 4) {
        b = b.text_color(Rgb565::RED);
    }
    if rng.chance(1, 2) {
        b = b.background_color(Rgb565::BLUE);
    }
    if rng.chance(1, 3) {
        b = b.underline().strikethrough();
    }
    let style = b.build();
    let ts = TextStyleBuilder::new()
        .alignment(*rng.pick(&[Alignment::Left, Alignment::Center, Alignment::Right]))
        .baseline(*rng.pick(&[Baseline::Top, Baseline::Bottom, Baseline::Middle, Baseline::Alphabetic]))
        .build();
    let text = Text::with_text_style(&s, at, style, ts);
    let clip = rect(rng.i32r(-5, 30), rng.i32r(-5, 20), rng.u32r(0, 40), rng.u32r(0, 30));
    monitored(ctx, "font with glyphs beyond its atlas: bounding_box + draw", &case, || {
        let bb = text.bounding_box();
        let mut t = NullNative::<Rgb565>::new(rect(0, 0, 64, 48), 200_000);
        let next = text.draw(&mut t);
        let mut u = NullIter(NullNative::<Rgb565>::new(rect(0, 0, 64, 48), 200_000));
        let next2 = text.draw(&mut u.clipped(&clip));
        (bb, next, next2, t.over || u.0.over)
    });
    ctx.count("texts_in_fonts_with_glyphs_beyond_the_atlas", 1);
    ctx.nontrivial(egmon::rng::hash_str(&case()));
}

/// out-of-range coordinates / indices are rejected without a panic
fn rejections(ctx: &mut Ctx, rng: &mut Rng) {
    const EXTREME: [i32; 12] = [i32::MIN, i32::MIN + 1, -1025, -1, 0, 1, 12, 13, 1024, 65536, i32::MAX - 1, i32::MAX];
    let p = Point::new(*rng.pick(&EXTREME), *rng.pick(&EXTREME));
    let case = || format!("out-of-range probe point {:?}", (p.x, p.y));
    // Framebuffer set_pixel / pixel
    macro_rules! fb {
        ($c:ty, $raw:ty, $o:ty, $col:expr) => {{
            const N: usize = ((13 * <$raw>::BITS_PER_PIXEL + 7) / 8) * 7;
            let mut fb = Framebuffer::<$c, $raw, $o, 13, 7, N>::new();
            let before = *fb.data();
            let inside = p.x >= 0 && p.y >= 0 && p.x < 13 && p.y < 7;
            if let Some(got) = monitored(ctx, concat!("Framebuffer<", stringify!($c), ">::set_pixel/pixel"), &case, || {
                fb.set_pixel(p, $col);
                let _ = fb.draw_iter([Pixel(p, $col)]);
                fb.pixel(p)
            }) {
                if !inside && (got.is_some() || *fb.data() != before) {
                    ctx.violation("rejection|framebuffer-accepts-out-of-range-point", || case(), || format!("pixel() = {:?}, data changed = {}", got.is_some(), *fb.data() != before));
                }
            }
        }};
    }
    fb!(BinaryColor, RawU1, LittleEndianMsb0, BinaryColor::On);
    fb!(BinaryColor, RawU1, BigEndianLsb0, BinaryColor::On);
    fb!(Gray4, RawU4, LittleEndianMsb0, Gray4::WHITE);
    fb!(Gray8, RawU8, LittleEndianMsb0, Gray8::WHITE);
    fb!(Rgb565, RawU16, BigEndianLsb0, Rgb565::WHITE);
    fb!(Rgb888, RawU24, LittleEndianMsb0, Rgb888::WHITE);
    // ImageRaw::pixel and sub_image areas
    let data = [0xA5u8; 13 * 7 * 4];
    fn img<C: PixelColor + From<<C as PixelColor>::Raw>>(ctx: &mut Ctx, case: &dyn Fn() -> String, data: &[u8], p: Point, area: Rectangle)
    where
        for<'a> RawDataSlice<'a, C::Raw, LittleEndianMsb0>: IntoIterator<Item = C::Raw>,
    {
        let len = ((13 * C::Raw::BITS_PER_PIXEL + 7) / 8) * 7;
        let raw = ImageRaw::<C>::new(&data[..len], Size::new(13, 7)).unwrap();
        let inside = p.x >= 0 && p.y >= 0 && p.x < 13 && p.y < 7;
        if let Some(got) = monitored(ctx, "ImageRaw::pixel", case, || raw.pixel(p).is_some()) {
            if got != inside {
                ctx.violation("rejection|imageraw-pixel-range", || case(), || format!("pixel().is_some() = {}", got));
            }
        }
        monitored(ctx, "sub_image + draw", &|| format!("{} sub_image area {:?}", case(), egmon::target::rt(&area)), || {
            let s = raw.sub_image(&area);
            let s2 = s.sub_image(&area);
            let mut t = NullNative::<C>::new(rect(0, 0, 64, 64), 100_000);
            let at = Point::new(p.x.clamp(-1024, 1024), p.y.clamp(-1024, 1024));
            let _ = embedded_graphics::image::Image::new(&s2, at).draw(&mut t);
            let _ = embedded_graphics::image::Image::with_center(&s, at).draw(&mut t);
            t.items
        });
    }
    let area = rect(*rng.pick(&EXTREME[2..10]), *rng.pick(&EXTREME[2..10]), rng.biased_u32(1024), rng.biased_u32(1024));
    img::<BinaryColor>(ctx, &case, &data, p, area);
    img::<Gray2>(ctx, &case, &data, p, area);
    img::<Rgb565>(ctx, &case, &data, p, area);
    img::<Rgb888>(ctx, &case, &data, p, area);
    // raw load/store with out-of-range indices
    let buf_len = rng.usizer(0, 12);
    let idx = *rng.pick(&[0usize, 1, 2, 3, 4, 5, 6, 7, 8, 9, 10, 11, 12, 13, 63, 64, 1 << 20, usize::MAX / 8, usize::MAX / 4 + 1, usize::MAX / 3 + 1, usize::MAX / 3 + 2, usize::MAX / 3 * 2 + 2, usize::MAX / 2 - 1, usize::MAX / 2, usize::MAX / 2 + 1, usize::MAX / 3 - 1, usize::MAX / 3, usize::MAX / 4 - 1, usize::MAX / 4, usize::MAX - 1, usize::MAX]);
    let icase = || format!("raw index {} on a buffer of {} bytes", idx, buf_len);
    macro_rules! ls {
        ($r:ty) => {{
            let mut storage = [0x5Au8; 12];
            let buf = &mut storage[..buf_len];
            monitored(ctx, concat!(stringify!($r), "::load/store"), &icase, || {
                let a = <$r>::load::<LittleEndianMsb0>(buf, idx).is_some();
                let b = <$r>::load::<BigEndianLsb0>(buf, idx).is_some();
                let c = <$r>::from_u32(0x1234_5678).store::<LittleEndianMsb0>(buf, idx).is_ok();
                let d = <$r>::from_u32(0x1234_5678).store::<BigEndianLsb0>(buf, idx).is_ok();
                let mut it = RawDataSlice::<$r, BigEndianLsb0>::new(buf).into_iter();
                let e = it.nth(idx).is_some();
                let _ = it.size_hint();
                (a, b, c, d, e)
            });
        }};
    }
    ls!(RawU1);
    ls!(RawU2);
    ls!(RawU4);
    ls!(RawU8);
    ls!(RawU16);
    ls!(RawU24);
    ls!(RawU32);
    ctx.nontrivial(egmon::rng::mix(egmon::rng::mix(p.x as u64, p.y as u64), egmon::rng::mix(idx as u64, buf_len as u64)));
}

/// draws a drawable on a real target (a Framebuffer) under the monitors
struct OnTarget<'t, 'c, 'r, T> {
    t: &'t mut T,
    ctx: &'c mut Ctx<'r>,
    name: &'static str,
}
impl<'t, 'c, 'r, C: ZCol, T: DrawTarget<Color = C>> Visitor<C> for OnTarget<'t, 'c, 'r, T> {
    type Out = ();
    fn visit<D: Dr<C>>(&mut self, d: &D, desc: &Desc) {
        let (t, name) = (&mut *self.t, self.name);
        monitored(self.ctx, "draw on Framebuffer", &|| format!("{} on {}", desc.text(), name), || {
            let _ = d.draw_on(t);
        });
    }
}

/// Framebuffers as targets: their fill operations called directly with degenerate, partly and wholly
/// out-of-range areas, and degenerate / off-screen drawables drawn on them. Nothing may panic or allocate
/// (what ends up in the buffer is C10's subject).
fn framebuffer_drawing(ctx: &mut Ctx, rng: &mut Rng) {
    fn near(rng: &mut Rng) -> i32 {
        match rng.below(8) {
            0 => rng.biased_i32(1024),
            1 => *rng.pick(&[-1, 0, 1, 6, 7, 8, 12, 13, 14]),
            _ => rng.i32r(-6, 20),
        }
    }
    fn nsize(rng: &mut Rng) -> u32 {
        match rng.below(8) {
            0 => rng.biased_u32(1024),
            1 | 2 => 0,
            _ => rng.u32r(0, 24),
        }
    }
    let np = |rng: &mut Rng| (near(rng), near(rng));
    let prim = match rng.below(6) {
        0 | 1 => Prim::Rect { tl: np(rng), size: (nsize(rng), nsize(rng)) },
        2 => Prim::Circle { tl: np(rng), d: nsize(rng) },
        3 => Prim::Ellipse { tl: np(rng), size: (nsize(rng), nsize(rng)) },
        4 => Prim::Line { a: np(rng), b: np(rng) },
        _ => Prim::Tri { p: [np(rng), np(rng), np(rng)] },
    };
    let st = StyleD { fill: if rng.chance(2, 3) { Some(1) } else { None }, stroke: if rng.chance(3, 4) { Some(2) } else { None }, width: *rng.pick(&[0u32, 1, 1, 1, 2, 3, 5, 128]), align: rng.below(3) as u8, dotted: rng.chance(1, 6) };
    let desc = Desc::Styled(prim, st);
    let a = Rectangle::new(Point::new(near(rng), near(rng)), Size::new(nsize(rng), nsize(rng)));
    let len = (a.size.width as u64 * a.size.height as u64).min(4000) as usize;
    let k = [0, len / 2, len, len + 3][rng.below(4) as usize];
    macro_rules! fb {
        ($c:ty, $raw:ty, $o:ty, $w:expr, $h:expr, $col:expr) => {{
            const N: usize = (($w * <$raw>::BITS_PER_PIXEL + 7) / 8) * $h;
            const NAME: &str = concat!("Framebuffer<", stringify!($c), ",", stringify!($o), ",", stringify!($w), "x", stringify!($h), ">");
            let mut fb = Framebuffer::<$c, $raw, $o, $w, $h, N>::new();
            let case = || format!("{} area {:?} ({} colours)", NAME, egmon::target::rt(&a), k);
            monitored(ctx, "Framebuffer::fill_solid", &case, || {
                let _ = fb.fill_solid(&a, $col);
            });
            monitored(ctx, "Framebuffer::fill_contiguous", &case, || {
                let _ = fb.fill_contiguous(&a, core::iter::repeat($col).take(k));
            });
            monitored(ctx, "Framebuffer::clear", &case, || {
                let _ = fb.clear($col);
            });
            desc.visit::<$c, _>(&mut OnTarget { t: &mut fb, ctx: &mut *ctx, name: NAME });
            ctx.count("framebuffer_target_cases", 1);
        }};
    }
    match rng.below(6) {
        0 => fb!(BinaryColor, RawU1, LittleEndianMsb0, 13, 7, BinaryColor::On),
        1 => fb!(Gray2, RawU2, BigEndianLsb0, 13, 7, Gray2::WHITE),
        2 => fb!(Gray8, RawU8, LittleEndianMsb0, 13, 7, Gray8::WHITE),
        3 => fb!(Rgb565, RawU16, BigEndianLsb0, 13, 7, Rgb565::WHITE),
        4 => fb!(Rgb888, RawU24, LittleEndianMsb0, 7, 13, Rgb888::WHITE),
        _ => fb!(Rgb565, RawU16, LittleEndianMsb0, 64, 48, Rgb565::WHITE),
    }
    ctx.nontrivial(desc.hash() ^ egmon::rng::hash_str(&format!("{:?}{}", egmon::target::rt(&a), k)));
}

fn visit_as<C: ZCol>(ctx: &mut Ctx, rng: &mut Rng, d: &Desc, extra: u32) {
    let mut r2 = rng.clone();
    d.visit::<C, _>(&mut V { ctx, rng: &mut r2, stroke_extra: extra });
}

fn main() {
    main_with("c08", "exploration", |run: &Run| {
        run.set_rule(
            "Display-scale, boundary-biased inputs (coordinates +-1024, sizes <= 1024 biased to {0,1,2,63..65,240,255..257,320,480,1024}, stroke widths 0..=128 incl. wider than the shape, Solid and Dotted stroke styles, line heights <= 1024 px / 400 %, the null font, fonts whose mapping designates glyphs beyond their atlas image, empty strings/polylines/images): \
             every constructor, bounding_box, contains, points, pixels, draw (native-fill and default-fill counting targets, through random translated/cropped/clipped stacks with display-scale areas, on boxes incl. empty and unbounded), translate, offset, confine_radii; \
             plus Framebuffers as targets (6 instantiations incl. portrait and multi-byte: fill_solid/fill_contiguous/clear called directly with zero-sized, partly and wholly out-of-range areas, degenerate and off-screen styled primitives drawn on them) and the rejection workload (Framebuffer set_pixel/pixel, ImageRaw::pixel, sub_image, raw load/store/nth with out-of-range points and indices up to i32/usize extremes). Every library call runs under the panic monitor with the allocation counter armed; iterators are consumed through step budgets. \
             This binary is built twice (default features, fixed_point). Non-trivial = non-empty bounding box (drawables) / any rejection probe; distinct = distinct case descriptions.",
        );
        run.assume("checked profile: opt-level 2 + overflow-checks + debug-assertions; a panic is attributed to the repository by its location/backtrace");
        let n = run.tier(150_000u64, 3_000_000u64);
        run.generate("styled-primitives", n, false, 0.3, |ctx, idx, rng| {
            let p = gen_prim_display(rng, None);
            let st = gen_style_display(rng);
            prim_queries(ctx, &p, rng);
            let d = Desc::Styled(p, st);
            if idx % 2 == 0 {
                visit_as::<Rgb565>(ctx, rng, &d, st.width);
            } else {
                visit_as::<BinaryColor>(ctx, rng, &d, st.width);
            }
        });
        let nt = run.tier(40_000u64, 800_000u64);
        run.generate("text", nt, false, 0.2, |ctx, idx, rng| {
            if idx % 8 == 0 {
                null_font_text(ctx, rng);
            } else if idx % 8 == 4 {
                short_atlas_font_text(ctx, rng);
            } else {
                let d = gen_text_display(rng);
                visit_as::<Rgb565>(ctx, rng, &d, 0);
            }
        });
        let ni = run.tier(30_000u64, 600_000u64);
        run.generate("images", ni, false, 0.2, |ctx, idx, rng| {
            let mut d = match idx % 3 {
                0 => zoo::gen_image::<BinaryColor>(rng, 40, 20),
                1 => zoo::gen_image::<Rgb565>(rng, 20, 12),
                _ => zoo::gen_image::<Gray4>(rng, 33, 9),
            };
            if let Desc::Image(ImageD { at, subs, .. }) = &mut d {
                *at = bp(rng);
                for s in subs.iter_mut() {
                    if rng.chance(1, 3) {
                        *s = (rng.biased_i32(1024), rng.biased_i32(1024), rng.biased_u32(1024), rng.biased_u32(1024));
                    }
                }
            }
            match idx % 3 {
                0 => visit_as::<BinaryColor>(ctx, rng, &d, 0),
                1 => visit_as::<Rgb565>(ctx, rng, &d, 0),
                _ => visit_as::<Gray4>(ctx, rng, &d, 0),
            }
        });
        let nr = run.tier(40_000u64, 800_000u64);
        run.generate("rejections", nr, false, 0.2, |ctx, _idx, rng| rejections(ctx, rng));
        let nf = run.tier(60_000u64, 1_500_000u64);
        run.generate("framebuffer-targets", nf, false, 0.2, |ctx, _idx, rng| framebuffer_drawing(ctx, rng));
        let ncs = run.tier(100_000u64, 4_000_000u64);
        run.generate("constructors", ncs, false, 0.3, |ctx, _idx, rng| constructors(ctx, rng));
    })
}
