//! C07 — rendering commutes with translation.
//! Metamorphic relation on recorded pixel maps: render(x.translate(d)) == shift(render(x), d).
use egmon::{
    jobj, main_with,
    target::{unbounded_box, IterTarget},
    zoo::{self, Desc, Dr, GenCfg, Prim, StyleD, Visitor, ZCol},
    Ctx, Rng, Run,
};
use embedded_graphics::{
    geometry::AngleUnit,
    pixelcolor::*,
    prelude::*,
    primitives::{Arc, Circle, ContainsPoint, CornerRadii, Ellipse, Line, PointsIter, Polyline, Rectangle, RoundedRectangle, Sector, Triangle},
};

struct V<'c, 'r> {
    ctx: &'c mut Ctx<'r>,
    d: Point,
}

fn render<C: ZCol, D: Dr<C>>(d: &D, budget: u64) -> (egmon::target::PixMap, Option<Point>, bool) {
    let mut t = IterTarget::<C>::new(unbounded_box());
    t.log.budget = budget;
    let r = d.draw_on(&mut t).ok().flatten();
    (t.log.map, r, t.log.over_budget)
}

fn thick(desc: &Desc) -> &'static str {
    match desc {
        Desc::Styled(_, s) if s.width >= 2 => "thick",
        Desc::Styled(..) => "thin",
        _ => "-",
    }
}

impl<'c, 'r, C: ZCol> Visitor<C> for V<'c, 'r> {
    type Out = ();
    fn visit<D: Dr<C>>(&mut self, x: &D, desc: &Desc) {
        let ctx = &mut *self.ctx;
        let d = self.d;
        ctx.eval();
        let kind = desc.kind();
        let case = || format!("{} translated by ({},{})", desc.text(), d.x, d.y);
        let bb = x.bbox();
        let budget = (bb.size.width as u64 + 300) * (bb.size.height as u64 + 300) * 8 + 4096 + desc.overlap_allowance();
        let (m0, r0, o0) = render::<C, D>(x, budget);
        let xt = x.translated(d);
        let (m1, r1, o1) = render::<C, D>(&xt, budget);
        if o0 || o1 {
            ctx.violation(format!("{}|draw-exceeds-step-budget", kind), case, || format!("more than {} items", budget));
            return;
        }
        let want = m0.shifted(d.x, d.y);
        if !m1.same(&want) {
            let n = m1.diff_count(&want);
            ctx.violation(format!("{}|{}|translated-rendering-differs", kind, thick(desc)), case, || {
                format!("{} pixels differ, first at {:?} (x, y, translated drawable, shifted original)\ntranslated drawable:\n{}shifted original:\n{}", n, m1.first_diff(&want), m1.ascii(48), want.ascii(48))
            });
        }
        // ... also where the target is bounded: moving a drawable relative to the target's edges
        // (box edges coinciding with / cutting through the moved drawable, only its first row and
        // column visible) leaves exactly the visible part of the shifted map, and the same return value
        if let Some(boxes) = egmon::target::cut_boxes(&want) {
            let bx = boxes[(want.hash() / 11 % 5) as usize];
            let mut tb = IterTarget::<C>::new(bx);
            tb.log.budget = budget;
            let rb = xt.draw_on(&mut tb).ok().flatten();
            let want_in = egmon::target::restrict(&want, &bx);
            if !tb.log.map.same(&want_in) || rb != r1 {
                ctx.violation(format!("{}|{}|translated-rendering-differs-on-bounded-target", kind, thick(desc)), || format!("{} on target box {:?}", case(), egmon::target::rt(&bx)), || {
                    format!("first difference {:?} (x, y, drawn on the bounded target, shifted original inside the box); returned {:?} vs {:?}", tb.log.map.first_diff(&want_in), rb, r1)
                });
            }
            ctx.count("bounded_target_draws", 1);
        }
        // translations accumulate: translate(d) followed by translate(e) is translate(d + e)
        {
            let e = Point::new((want.hash() % 23) as i32 - 11, (want.hash() / 23 % 23) as i32 - 11);
            let xtt = xt.translated(e);
            let (m3, _, _) = render::<C, D>(&xtt, budget);
            let mut xmm = x.translated(d);
            xmm.translate_in_place(e);
            let (m4, _, _) = render::<C, D>(&xmm, budget);
            let want2 = m0.shifted(d.x + e.x, d.y + e.y);
            if !m3.same(&want2) || !m4.same(&want2) {
                ctx.violation(format!("{}|{}|two-translations-do-not-add-up", kind, thick(desc)), || format!("{} and then by ({},{})", case(), e.x, e.y), || {
                    format!("translate.translate: first difference {:?}; translate.translate_mut: first difference {:?} (x, y, rendered, original shifted by the sum)", m3.first_diff(&want2), m4.first_diff(&want2))
                });
            }
        }
        // text: next position shifts as well
        if let (Some(a), Some(b)) = (r0, r1) {
            if b != a + d {
                ctx.violation(format!("{}|next-position-not-shifted", kind), case, || format!("original returns {:?}, translated returns {:?}", a, b));
            }
        }
        // bounding boxes (non-empty ones) shift by d
        let bt = xt.bbox();
        if !bb.is_zero_sized() && (bt.top_left != bb.top_left + d || bt.size != bb.size) {
            ctx.violation(format!("{}|{}|bounding-box-not-shifted", kind, thick(desc)), case, || format!("original {:?}, translated {:?}", bb, bt));
        }
        // translate_mut == translate
        let mut xm = x.translated(Point::zero());
        xm.translate_in_place(d);
        let (m2, r2, _) = render::<C, D>(&xm, budget);
        if !m2.same(&m1) || r2 != r1 || xm.bbox() != bt {
            ctx.violation(format!("{}|translate_mut-differs-from-translate", kind), case, || format!("first difference {:?}", m2.first_diff(&m1)));
        }
        // pixels() of styled primitives shifts too
        if let (Some(p0), Some(p1)) = (x.pixels_vec(budget as usize), xt.pixels_vec(budget as usize)) {
            let same = p0.len() == p1.len() && p0.iter().zip(p1.iter()).all(|(a, b)| a.0 + d == b.0 && a.1 == b.1);
            if !same {
                ctx.violation(format!("{}|{}|pixels-iterator-not-shifted", kind, thick(desc)), case, || format!("{} vs {} items", p0.len(), p1.len()));
            }
        }
        ctx.count("pixels_compared", m1.len() as u64);
        if !m0.is_empty() && d != Point::zero() {
            ctx.nontrivial(desc.hash() ^ egmon::rng::mix(d.x as u64, d.y as u64));
        }
        if ctx.wants_sample() {
            ctx.sample(|| jobj! {"drawable" => desc.text(), "offset" => format!("({},{})", d.x, d.y), "pixels" => m0.len() as u64});
        }
    }
}

fn offset(rng: &mut Rng, desc: &Desc) -> Point {
    const V: [i32; 9] = [0, 1, -1, 7, -7, 64, -64, 1000, -1000];
    match rng.below(5) {
        0 => Point::new(*rng.pick(&V), *rng.pick(&V)),
        // far offsets: beyond 16 bits on one or both axes (a code path chosen by the magnitude of the
        // coordinates is only reached this way; seeded `C07-12`)
        4 => {
            let far = |rng: &mut Rng| {
                let m = match rng.below(5) {
                    0 => 32_768 + rng.i32r(-70, 70),
                    1 => 65_536 + rng.i32r(-70, 70),
                    2 => rng.i32r(30_000, 70_000),
                    3 => rng.i32r(70_000, 1_000_000),
                    _ => rng.i32r(-90, 90),
                };
                if rng.chance(1, 2) {
                    -m
                } else {
                    m
                }
            };
            Point::new(far(rng), far(rng))
        }
        1 => {
            // move an anchoring coordinate exactly onto / just across an axis
            let (ax, ay) = match desc {
                Desc::Styled(Prim::Tri { p }, _) => p[rng.usizer(0, 2)],
                Desc::Styled(Prim::Line { a, b }, _) => {
                    if rng.chance(1, 2) {
                        *a
                    } else {
                        *b
                    }
                }
                Desc::Styled(Prim::Polyline { pts, tr }, _) if !pts.is_empty() => {
                    let p = pts[rng.usizer(0, pts.len() - 1)];
                    (p.0 + tr.0, p.1 + tr.1)
                }
                Desc::Styled(Prim::Rect { tl, .. }, _) | Desc::Styled(Prim::Ellipse { tl, .. }, _) | Desc::Styled(Prim::Circle { tl, .. }, _) => *tl,
                Desc::Text(t) => t.at,
                Desc::Image(i) => i.at,
                _ => (rng.i32r(-20, 20), rng.i32r(-20, 20)),
            };
            Point::new(-ax + rng.i32r(-1, 1), -ay + rng.i32r(-1, 1))
        }
        _ => Point::new(rng.i32r(-90, 90), rng.i32r(-90, 90)),
    }
}

fn visit_as<C: ZCol>(ctx: &mut Ctx, desc: &Desc, d: Point) {
    let mut v = V { ctx, d };
    desc.visit::<C, _>(&mut v);
}

/// points()/contains() of the bare primitives shift with translate
fn prim_relations(ctx: &mut Ctx, rng: &mut Rng) {
    fn rel<P>(ctx: &mut Ctx, kind: &'static str, p: &P, d: Point, desc: String, check_contains: Option<&dyn Fn(&P, Point) -> bool>)
    where
        P: PointsIter + Dimensions + Transform,
    {
        ctx.eval();
        let a: Vec<Point> = p.points().take(60_000).collect();
        let q = p.translate(d);
        let b: Vec<Point> = q.points().take(60_000).collect();
        if a.len() != b.len() || a.iter().zip(b.iter()).any(|(x, y)| *x + d != *y) {
            ctx.violation(format!("{}|points-not-shifted", kind), || format!("{} translated by {:?}", desc, d), || format!("{} vs {} points", a.len(), b.len()));
        }
        let bb = p.bounding_box();
        if let Some(cf) = check_contains {
            for y in bb.top_left.y - 2..bb.top_left.y + bb.size.height.min(60) as i32 + 2 {
                for x in bb.top_left.x - 2..bb.top_left.x + bb.size.width.min(60) as i32 + 2 {
                    let pt = Point::new(x, y);
                    if cf(p, pt) != cf(&q, pt + d) {
                        ctx.violation(format!("{}|contains-not-shifted", kind), || format!("{} translated by {:?}", desc, d), || format!("contains({:?}) = {} but translated contains({:?}) = {}", pt, cf(p, pt), pt + d, cf(&q, pt + d)));
                        return;
                    }
                }
            }
        }
        if !bb.is_zero_sized() && q.bounding_box() != Rectangle::new(bb.top_left + d, bb.size) {
            ctx.violation(format!("{}|primitive-bounding-box-not-shifted", kind), || format!("{} translated by {:?}", desc, d), || format!("{:?} -> {:?}", bb, q.bounding_box()));
        }
        if a.len() >= 2 {
            ctx.nontrivial(egmon::rng::hash_str(&desc) ^ egmon::rng::mix(d.x as u64, d.y as u64));
        }
    }
    let cfg = GenCfg::SMALL;
    let p = zoo::gen_prim(rng, &cfg, None);
    let d = offset(rng, &Desc::Styled(p.clone(), StyleD { fill: None, stroke: None, width: 0, align: 0, dotted: false }));
    let pt = |p: (i32, i32)| Point::new(p.0, p.1);
    let sz = |s: (u32, u32)| Size::new(s.0, s.1);
    let desc = format!("{:?}", p);
    match &p {
        Prim::Rect { tl, size } => rel(ctx, "rectangle", &Rectangle::new(pt(*tl), sz(*size)), d, desc, Some(&|s: &Rectangle, q| s.contains(q))),
        Prim::Circle { tl, d: dia } => rel(ctx, "circle", &Circle::new(pt(*tl), *dia), d, desc, Some(&|s: &Circle, q| s.contains(q))),
        Prim::Ellipse { tl, size } => rel(ctx, "ellipse", &Ellipse::new(pt(*tl), sz(*size)), d, desc, Some(&|s: &Ellipse, q| s.contains(q))),
        Prim::RRect { tl, size, radii } => rel(
            ctx,
            "rounded_rectangle",
            &RoundedRectangle::new(Rectangle::new(pt(*tl), sz(*size)), CornerRadii { top_left: sz(radii[0]), top_right: sz(radii[1]), bottom_right: sz(radii[2]), bottom_left: sz(radii[3]) }),
            d,
            desc,
            Some(&|s: &RoundedRectangle, q| s.contains(q)),
        ),
        Prim::Tri { p } => rel(ctx, "triangle", &Triangle::new(pt(p[0]), pt(p[1]), pt(p[2])), d, desc, Some(&|s: &Triangle, q| s.contains(q))),
        Prim::Line { a, b } => rel(ctx, "line", &Line::new(pt(*a), pt(*b)), d, desc, None),
        Prim::Polyline { pts, tr } => {
            let v: Vec<Point> = pts.iter().map(|&p| pt(p)).collect();
            let pl = Polyline::new(&v).translate(pt(*tr));
            rel(ctx, "polyline", &pl, d, desc.clone(), None);
            // moving the vertices instead of using translate
            ctx.eval();
            let moved: Vec<Point> = v.iter().map(|&p| p + pt(*tr) + d).collect();
            let a: Vec<Point> = Polyline::new(&moved).points().take(60_000).collect();
            let b: Vec<Point> = pl.translate(d).points().take(60_000).collect();
            if a != b {
                ctx.violation("polyline|moved-vertices-vs-translate-points", || format!("{} translated by {:?}", desc, d), || format!("{} vs {} points", a.len(), b.len()));
            }
        }
        Prim::Arc { tl, d: dia, start, sweep } => rel(ctx, "arc", &Arc::new(pt(*tl), *dia, start.deg(), sweep.deg()), d, desc, None),
        Prim::Sector { tl, d: dia, start, sweep } => rel(ctx, "sector", &Sector::new(pt(*tl), *dia, start.deg(), sweep.deg()), d, desc, Some(&|s: &Sector, q| s.contains(q))),
    }
}

fn main() {
    main_with("c07", "exploration", |run: &Run| {
        run.set_rule(
            "Every drawable of the zoo x an offset d from {0,+-1,+-7,+-64,+-1000}^2, offsets that move a vertex/anchor exactly onto or across a coordinate axis, and random offsets; checks: pixel map of x.translate(d) = map of x shifted by d, \
             non-empty bounding boxes, pixels(), points(), contains() shift by d, text's next position shifts, translate_mut = translate, polylines moved by translate vs by moving their vertices. \
             Emphasis on stroke widths 2..=9 on triangles and polylines. Non-trivial = the drawable draws at least one pixel and d != 0; distinct = distinct (drawable, offset).",
        );
        let n1 = run.tier(120_000u64, 3_000_000u64);
        run.generate("thick-triangles-polylines", n1, false, 0.3, |ctx, idx, rng| {
            let v = |rng: &mut Rng| (rng.i32r(-40, 40), rng.i32r(-40, 40));
            let p = if idx % 2 == 0 {
                Prim::Tri { p: [v(rng), v(rng), v(rng)] }
            } else {
                let n = rng.usizer(2, 6);
                Prim::Polyline { pts: (0..n).map(|_| v(rng)).collect(), tr: if rng.chance(1, 2) { (0, 0) } else { v(rng) } }
            };
            let st = StyleD { fill: if rng.chance(1, 3) { Some(1) } else { None }, stroke: Some(2), width: rng.u32r(2, 9), align: rng.below(3) as u8, dotted: false };
            let desc = Desc::Styled(p, st);
            let d = offset(rng, &desc);
            visit_as::<Rgb565>(ctx, &desc, d);
        });
        let n2 = run.tier(120_000u64, 3_000_000u64);
        run.generate("any-drawable", n2, false, 0.3, |ctx, idx, rng| {
            if idx % 2 == 0 {
                let desc = if rng.chance(1, 10) { zoo::gen_dotted_rect(rng) } else { zoo::gen_any::<Rgb565>(rng, &GenCfg::SMALL_DOTTED) };
                let d = offset(rng, &desc);
                visit_as::<Rgb565>(ctx, &desc, d);
            } else {
                let desc = if rng.chance(1, 10) { zoo::gen_dotted_rect(rng) } else { zoo::gen_any::<BinaryColor>(rng, &GenCfg::SMALL_DOTTED) };
                let d = offset(rng, &desc);
                visit_as::<BinaryColor>(ctx, &desc, d);
            }
        });
        let n3 = run.tier(60_000u64, 1_500_000u64);
        run.generate("polyline-moved-vertices", n3, false, 0.2, |ctx, _idx, rng| {
            // the same polyline described by moved vertices and by translate must render alike
            let n = rng.usizer(2, 6);
            let pts: Vec<(i32, i32)> = (0..n).map(|_| (rng.i32r(-40, 40), rng.i32r(-40, 40))).collect();
            let st = StyleD { fill: None, stroke: Some(2), width: rng.u32r(1, 9), align: 1, dotted: false };
            let base = Desc::Styled(Prim::Polyline { pts: pts.clone(), tr: (0, 0) }, st);
            let d = offset(rng, &base);
            let via_translate = Desc::Styled(Prim::Polyline { pts: pts.clone(), tr: (d.x, d.y) }, st);
            let via_vertices = Desc::Styled(Prim::Polyline { pts: pts.iter().map(|p| (p.0 + d.x, p.1 + d.y)).collect(), tr: (0, 0) }, st);
            struct R(Option<egmon::target::PixMap>);
            impl Visitor<Rgb565> for R {
                type Out = ();
                fn visit<D: Dr<Rgb565>>(&mut self, x: &D, _desc: &Desc) {
                    self.0 = Some(render::<Rgb565, D>(x, 2_000_000).0);
                }
            }
            let (mut a, mut b) = (R(None), R(None));
            via_translate.visit::<Rgb565, _>(&mut a);
            via_vertices.visit::<Rgb565, _>(&mut b);
            ctx.eval();
            let (a, b) = (a.0.unwrap(), b.0.unwrap());
            if !a.same(&b) {
                ctx.violation(
                    format!("polyline|{}|moved-vertices-vs-translate", if st.width >= 2 { "thick" } else { "thin" }),
                    || format!("{} moved by ({},{})", base.text(), d.x, d.y),
                    || format!("{} pixels differ, first {:?} (x, y, via translate, via moved vertices)\nvia translate:\n{}via vertices:\n{}", a.diff_count(&b), a.first_diff(&b), a.ascii(48), b.ascii(48)),
                );
            }
            if !a.is_empty() {
                ctx.nontrivial(base.hash() ^ egmon::rng::mix(d.x as u64, d.y as u64));
            }
        });
        let n4 = run.tier(80_000u64, 1_500_000u64);
        run.generate("primitive-points-contains", n4, false, 0.2, |ctx, _idx, rng| prim_relations(ctx, rng));
    })
}
