//! C03 — clipped/cropped/translated/converted targets and trait defaults are exact.
//! Online reference-model monitor: a set-theoretic model of the adapter stack is run in lockstep
//! with random operation histories; parent state, parent event log and bounding boxes are compared
//! after every operation.
use egmon::{
    adapters::{stack_text, with_stack, Ad, TargetUser},
    jobj, main_with,
    rng::mix,
    target::{rect, rt, Col, Fault, IterTarget, Kind, NativeTarget, PixMap, Recorder},
    Ctx, Rng, Run,
};
use embedded_graphics::{draw_target::DrawTargetExt, pixelcolor::*, prelude::*, primitives::Rectangle, Pixel};

type R4 = (i64, i64, i64, i64);

fn r4(r: &Rectangle) -> R4 {
    (r.top_left.x as i64, r.top_left.y as i64, r.size.width as i64, r.size.height as i64)
}
fn empty(r: &R4) -> bool {
    r.2 <= 0 || r.3 <= 0
}
/// set intersection; empty results are normalised to None
fn isect(a: &R4, b: &R4) -> Option<R4> {
    if empty(a) || empty(b) {
        return None;
    }
    let x0 = a.0.max(b.0);
    let y0 = a.1.max(b.1);
    let x1 = (a.0 + a.2).min(b.0 + b.2);
    let y1 = (a.1 + a.3).min(b.1 + b.3);
    if x1 > x0 && y1 > y0 {
        Some((x0, y0, x1 - x0, y1 - y0))
    } else {
        None
    }
}
fn contains(r: &R4, p: (i64, i64)) -> bool {
    p.0 >= r.0 && p.1 >= r.1 && p.0 < r.0 + r.2 && p.1 < r.1 + r.3
}

/// model of one adapter level, in the coordinates of that level
#[derive(Clone, Debug)]
struct Level {
    /// p_parent = p + shift
    shift: (i64, i64),
    /// Some(clip) for clipped levels: None inside = empty clip (nothing passes)
    clip: Option<Option<R4>>,
    /// documented bounding box (None = empty)
    bbox: Option<R4>,
    /// cropped level (clear = fill of its own box)
    cropped: bool,
    /// cropped level without effective area: the coordinate shift is not documented
    undefined_shift: bool,
}

fn build_model(stack: &[Ad], parent_box: &Rectangle) -> Vec<Level> {
    let mut below: Option<R4> = {
        let b = r4(parent_box);
        if empty(&b) {
            None
        } else {
            Some(b)
        }
    };
    let mut levels = Vec::new();
    for ad in stack {
        let l = match ad {
            Ad::Tr(o) => Level { shift: (o.x as i64, o.y as i64), clip: None, bbox: below.map(|b| (b.0 - o.x as i64, b.1 - o.y as i64, b.2, b.3)), cropped: false, undefined_shift: false },
            Ad::Cr(a) => {
                let eff = below.and_then(|b| isect(&r4(a), &b));
                match eff {
                    Some(e) => Level { shift: (e.0, e.1), clip: None, bbox: Some((0, 0, e.2, e.3)), cropped: true, undefined_shift: false },
                    None => Level { shift: (0, 0), clip: None, bbox: None, cropped: true, undefined_shift: true },
                }
            }
            Ad::Cl(a) => {
                let clip = below.and_then(|b| isect(&r4(a), &b));
                Level { shift: (0, 0), clip: Some(clip), bbox: clip, cropped: false, undefined_shift: false }
            }
        };
        below = l.bbox;
        levels.push(l);
    }
    levels
}

#[derive(Clone, Debug)]
enum Op {
    DrawIter(Vec<(i32, i32, u32)>),
    FillContiguous(Rectangle, Vec<u32>),
    FillSolid(Rectangle, u32),
    Clear(u32),
}

impl Op {
    fn text(&self) -> String {
        match self {
            Op::DrawIter(p) => format!("draw_iter({:?})", &p[..p.len().min(10)]),
            Op::FillContiguous(a, c) => format!("fill_contiguous({:?}, {} colours)", rt(a), c.len()),
            Op::FillSolid(a, c) => format!("fill_solid({:?}, {:#x})", rt(a), c),
            Op::Clear(c) => format!("clear({:#x})", c),
        }
    }
}

fn area_points(a: &R4) -> Vec<(i64, i64)> {
    let mut v = Vec::new();
    if !empty(a) {
        for y in a.1..a.1 + a.3 {
            for x in a.0..a.0 + a.2 {
                v.push((x, y));
            }
        }
    }
    v
}

/// ordered list of (point in parent coordinates, colour) that the documented semantics deliver
/// to the innermost parent for `op` issued at the outermost level
fn model_effects(levels: &[Level], parent_box: &R4, op: &Op) -> Vec<((i64, i64), u32)> {
    // start at the outermost level with either a point list or a pending clear
    let mut pending_clear: Option<u32> = None;
    let mut pts: Vec<((i64, i64), u32)> = match op {
        Op::DrawIter(p) => p.iter().map(|&(x, y, c)| ((x as i64, y as i64), c)).collect(),
        Op::FillSolid(a, c) => area_points(&r4(a)).into_iter().map(|p| (p, *c)).collect(),
        Op::FillContiguous(a, cols) => area_points(&r4(a)).into_iter().zip(cols.iter().copied()).collect(),
        Op::Clear(c) => {
            pending_clear = Some(*c);
            Vec::new()
        }
    };
    for l in levels.iter().rev() {
        if let Some(c) = pending_clear {
            // clear at this level
            if let Some(clip) = &l.clip {
                // default clear of a clipped target: fill_solid(bounding box = clip)
                pts = clip.map(|cl| area_points(&cl)).unwrap_or_default().into_iter().map(|p| (p, c)).collect();
                pending_clear = None;
            } else if l.cropped {
                pts = l.bbox.map(|b| area_points(&b)).unwrap_or_default().into_iter().map(|p| (p, c)).collect();
                pending_clear = None;
            } else {
                // translated: clears its parent
                continue;
            }
        }
        if let Some(clip) = &l.clip {
            match clip {
                Some(cl) => pts.retain(|(p, _)| contains(cl, *p)),
                None => pts.clear(),
            }
        }
        for (p, _) in pts.iter_mut() {
            p.0 += l.shift.0;
            p.1 += l.shift.1;
        }
    }
    if let Some(c) = pending_clear {
        pts = area_points(parent_box).into_iter().map(|p| (p, c)).collect();
    }
    pts
}

/// composed clip in parent coordinates: None = unrestricted, Some(None) = nothing allowed
fn composed_clip(levels: &[Level]) -> Option<Option<R4>> {
    let mut acc: Option<Option<R4>> = None;
    // walk from the innermost level outwards, tracking the offset of that level's coordinates
    let mut off = (0i64, 0i64);
    for l in levels {
        off.0 += l.shift.0;
        off.1 += l.shift.1;
        if let Some(clip) = &l.clip {
            let in_parent = clip.map(|c| (c.0 + off.0, c.1 + off.1, c.2, c.3));
            acc = Some(match (acc, in_parent) {
                (None, c) => c,
                (Some(None), _) | (Some(_), None) => None,
                (Some(Some(a)), Some(b)) => isect(&a, &b),
            });
        }
    }
    acc
}

/// A stream whose `size_hint` is as uninformative as the trait allows (what `flat_map`, `filter`,
/// `from_fn`, `scan` report): mode 0 passes the inner hint on, 1 keeps only the upper bound, 2 reports (0, None).
struct Hint<I>(I, u8);
impl<I: Iterator> Iterator for Hint<I> {
    type Item = I::Item;
    fn next(&mut self) -> Option<I::Item> {
        self.0.next()
    }
    fn size_hint(&self) -> (usize, Option<usize>) {
        match self.1 {
            0 => self.0.size_hint(),
            1 => (0, self.0.size_hint().1),
            _ => (0, None),
        }
    }
}

struct ApplyOp<'o, C> {
    op: &'o Op,
    result: Option<Result<(), Fault>>,
    bbox: Option<Rectangle>,
    _c: core::marker::PhantomData<C>,
}
impl<'o, C: Col> TargetUser<C, Fault> for ApplyOp<'o, C> {
    fn use_target<T: DrawTarget<Color = C, Error = Fault>>(&mut self, t: &mut T) {
        self.bbox = Some(t.bounding_box());
        self.result = Some(match self.op {
            // (the size hints of the streams vary with the operation: exact, upper bound only, none)
            Op::DrawIter(p) => t.draw_iter(Hint(p.iter().map(|&(x, y, c)| Pixel(Point::new(x, y), C::from_u32(c))), (p.len() % 3) as u8)),
            Op::FillContiguous(a, cols) => t.fill_contiguous(a, Hint(cols.iter().map(|&c| C::from_u32(c)), ((cols.len() + a.size.width as usize) % 3) as u8)),
            Op::FillSolid(a, c) => t.fill_solid(a, C::from_u32(*c)),
            Op::Clear(c) => t.clear(C::from_u32(*c)),
        });
    }
}

struct ReadBox(Option<Rectangle>);
impl<C: PixelColor> TargetUser<C, Fault> for ReadBox {
    fn use_target<T: DrawTarget<Color = C, Error = Fault>>(&mut self, t: &mut T) {
        self.0 = Some(t.bounding_box());
    }
}

/// colour conversion outermost: ops are issued in Gray8, the stack and parent are Rgb565
struct ConvertOuter<'o> {
    inner: ApplyOp<'o, Gray8>,
}
impl<'o> TargetUser<Rgb565, Fault> for ConvertOuter<'o> {
    fn use_target<T: DrawTarget<Color = Rgb565, Error = Fault>>(&mut self, t: &mut T) {
        let mut cc = t.color_converted::<Gray8>();
        self.inner.use_target(&mut cc);
    }
}

fn gen_rect(rng: &mut Rng, around: &Rectangle) -> Rectangle {
    let (w, h) = (around.size.width as i32, around.size.height as i32);
    match rng.below(8) {
        0 => rect(around.top_left.x + rng.i32r(-3, w + 3), around.top_left.y + rng.i32r(-3, h + 3), 0, rng.u32r(0, 4)),
        1 => rect(around.top_left.x + rng.i32r(-3, w + 3), around.top_left.y + rng.i32r(-3, h + 3), rng.u32r(0, 8), 0),
        2 => rect(around.top_left.x - rng.i32r(8, 20), around.top_left.y, rng.u32r(1, 5), rng.u32r(1, 5)), // disjoint
        3 => rect(around.top_left.x - 2, around.top_left.y - 2, around.size.width + 4, around.size.height + 4), // enclosing
        _ => rect(around.top_left.x + rng.i32r(-4, w), around.top_left.y + rng.i32r(-4, h), rng.u32r(0, around.size.width + 5), rng.u32r(0, around.size.height + 5)),
    }
}

#[derive(Clone, Copy, PartialEq, Eq, Debug)]
enum Conv {
    None,
    Outer,
    Inner,
}

fn history<P>(ctx: &mut Ctx, rng: &mut Rng, conv: Conv, fixed_stack: Option<Vec<u8>>)
where
    P: Recorder + DrawTarget<Color = Rgb565, Error = Fault>,
{
    // parent with arbitrary (non-origin, possibly empty) bounding box
    let parent_box = match rng.below(10) {
        0 => rect(rng.i32r(-9, 9), rng.i32r(-9, 9), 0, rng.u32r(0, 6)),
        1 => rect(rng.i32r(-9, 9), rng.i32r(-9, 9), rng.u32r(0, 6), 0),
        2 => rect(0, 0, rng.u32r(1, 14), rng.u32r(1, 12)),
        // wide parents: row lengths beyond 255 (counters and skips in the cropping colour iterator)
        3 if rng.chance(1, 3) => rect(rng.i32r(-5, 5), rng.i32r(-5, 5), rng.u32r(250, 420), rng.u32r(2, 3)),
        // tall parents: more than 255 rows
        4 if rng.chance(1, 4) => rect(rng.i32r(-5, 5), rng.i32r(-5, 5), rng.u32r(2, 3), rng.u32r(250, 420)),
        _ => rect(rng.i32r(-12, 12), rng.i32r(-12, 12), rng.u32r(1, 16), rng.u32r(1, 12)),
    };
    // adapter stack: every level's area is chosen relative to the box of the level below
    let kinds: Vec<u8> = match fixed_stack {
        Some(k) => k,
        None => {
            let depth = rng.usizer(0, 3);
            (0..depth).map(|_| rng.below(3) as u8).collect()
        }
    };
    let mut stack: Vec<Ad> = Vec::new();
    for &k in &kinds {
        let below = build_model(&stack, &parent_box).last().map(|l| l.bbox).unwrap_or_else(|| {
            let b = r4(&parent_box);
            if empty(&b) {
                None
            } else {
                Some(b)
            }
        });
        let around = below.map(|b| rect(b.0 as i32, b.1 as i32, b.2 as u32, b.3 as u32)).unwrap_or(rect(rng.i32r(-5, 5), rng.i32r(-5, 5), 4, 4));
        stack.push(match k {
            0 => Ad::Tr(Point::new(rng.i32r(-7, 7), rng.i32r(-7, 7))),
            1 => Ad::Cr(gen_rect(rng, &around)),
            _ => Ad::Cl(gen_rect(rng, &around)),
        });
    }
    let levels = build_model(&stack, &parent_box);
    let pb = r4(&parent_box);
    let undefined = levels.iter().any(|l| l.undefined_shift);
    let native = if P::NATIVE { "native" } else { "draw_iter-only" };
    let conv_txt = match conv {
        Conv::None => "",
        Conv::Outer => " + color_converted(outermost)",
        Conv::Inner => " + color_converted(innermost)",
    };
    // a third of the parents consumes the iterators it receives by internal iteration (for_each)
    let internal = rng.chance(1, 3);
    let setup = format!("parent {}{} box {:?}, stack {}{}", native, if internal { " (consuming with for_each)" } else { "" }, rt(&parent_box), stack_text(&stack), conv_txt);
    let sclass = format!("{}{}", kinds.iter().map(|k| ["T", "R", "L"][*k as usize]).collect::<String>(), if conv == Conv::None { "" } else { "+cc" });

    // (3) documented bounding box of every level
    for i in 0..=stack.len() {
        ctx.eval();
        let mut parent = P::with_box(parent_box);
        let mut rb = ReadBox(None);
        with_stack(&stack[..i], &mut parent, &mut rb);
        let got = r4(&rb.0.unwrap());
        let want = if i == 0 {
            if empty(&pb) {
                None
            } else {
                Some(pb)
            }
        } else {
            levels[i - 1].bbox
        };
        let ok = match want {
            None => empty(&got),
            Some(w) => got == w,
        };
        if !ok {
            let k = ["translated", "cropped", "clipped"][kinds[i - 1] as usize];
            ctx.violation(format!("{}|bounding-box-not-as-documented", k), || format!("{} level {}", setup, i), || format!("bounding_box() = {:?}, documented {:?}", got, want));
        }
    }

    let mut parent = P::with_box(parent_box);
    parent.log_mut().keep_pixels = true;
    parent.log_mut().internal_iteration = internal;
    if internal {
        ctx.count("histories_on_parents_consuming_with_for_each", 1);
    }
    let mut model_map = PixMap::new();
    let clip = composed_clip(&levels);
    let n_ops = rng.usizer(1, 12);
    let mut counter: u32 = rng.u32r(1, 200);
    let mut trace: Vec<String> = Vec::new();
    // colours: unique per written pixel (so a read identifies its write); Gray8 when converting
    let gray = conv != Conv::None;
    let mut next_colour = |counter: &mut u32| {
        *counter += 1;
        if gray {
            *counter & 0xFF
        } else {
            *counter & 0xFFFF
        }
    };
    let to_parent_colour = |c: u32| if gray { Rgb565::from(Gray8::new(c as u8)).to_u32() } else { c };
    let outer_box = levels.last().map(|l| l.bbox).unwrap_or(if empty(&pb) { None } else { Some(pb) });
    let around = outer_box.map(|b| rect(b.0 as i32, b.1 as i32, b.2 as u32, b.3 as u32)).unwrap_or(rect(0, 0, 5, 5));
    let fault_at = if rng.chance(1, 5) { Some(rng.u32r(1, 6) as u64) } else { None };
    for _ in 0..n_ops {
        let op = match rng.below(7) {
            0 | 1 => {
                let k = rng.usizer(0, 14);
                let mut v = Vec::new();
                for _ in 0..k {
                    let p = if !v.is_empty() && rng.chance(1, 6) {
                        let q: (i32, i32, u32) = v[rng.usizer(0, v.len() - 1)];
                        (q.0, q.1)
                    } else {
                        (around.top_left.x + rng.i32r(-4, around.size.width as i32 + 3), around.top_left.y + rng.i32r(-4, around.size.height as i32 + 3))
                    };
                    v.push((p.0, p.1, next_colour(&mut counter)));
                }
                Op::DrawIter(v)
            }
            2 | 3 => {
                let a = gen_rect(rng, &around);
                let total = (a.size.width * a.size.height) as usize;
                let len = match rng.below(5) {
                    0 => 0,
                    1 => total / 2,
                    2 => total.saturating_sub(1),
                    3 => total + 4,
                    _ => total,
                };
                Op::FillContiguous(a, (0..len).map(|_| next_colour(&mut counter)).collect())
            }
            4 | 5 => Op::FillSolid(gen_rect(rng, &around), next_colour(&mut counter)),
            _ => Op::Clear(next_colour(&mut counter)),
        };
        trace.push(op.text());
        let case = || format!("{}; ops: {}", setup, trace.join("; "));
        ctx.eval();
        let events_before = parent.log().events.len();
        let calls_before = parent.log().calls;
        if let Some(k) = fault_at {
            parent.log_mut().fail_at = Some(Fault { k: calls_before + k, nonce: mix(counter as u64, k) });
            parent.log_mut().failed = false;
        }
        let result = match conv {
            Conv::None => {
                let mut u = ApplyOp::<Rgb565> { op: &op, result: None, bbox: None, _c: core::marker::PhantomData };
                with_stack(&stack, &mut parent, &mut u);
                u.result.unwrap()
            }
            Conv::Outer => {
                let mut u = ConvertOuter { inner: ApplyOp::<Gray8> { op: &op, result: None, bbox: None, _c: core::marker::PhantomData } };
                with_stack(&stack, &mut parent, &mut u);
                u.inner.result.unwrap()
            }
            Conv::Inner => {
                let mut cc = parent.color_converted::<Gray8>();
                let mut u = ApplyOp::<Gray8> { op: &op, result: None, bbox: None, _c: core::marker::PhantomData };
                with_stack(&stack, &mut cc, &mut u);
                u.result.unwrap()
            }
        };
        let injected = parent.log().failed;
        // (4) injected parent errors come back unchanged
        if injected {
            let f = parent.log().fail_at.unwrap();
            if result != Err(f) {
                ctx.violation(format!("stack={}|parent-error-not-returned-unchanged", sclass), case, || format!("parent failed with {:?}, adapter returned {:?}", f, result));
            }
            ctx.count("parent_faults_injected", 1);
            // the failed call had no effect; later ops continue on a fresh fault counter
            parent.log_mut().fail_at = None;
            parent.log_mut().failed = false;
            return;
        } else if result.is_err() {
            ctx.violation(format!("stack={}|error-without-fault", sclass), case, || format!("{:?}", result));
            return;
        }
        parent.log_mut().fail_at = None;
        if undefined {
            // no documented coordinate shift: only totality and the empty boxes were checked
            ctx.count("ops_on_stacks_with_empty_cropped_area", 1);
            continue;
        }
        let effects = model_effects(&levels, &pb, &op);
        // (1) nothing outside the composed clip reaches the parent
        let new_events = &parent.log().events[events_before..];
        let mut delivered: Vec<((i64, i64), u32)> = Vec::new();
        for e in new_events {
            match e.kind {
                Kind::DrawIter => delivered.extend(e.px.iter().map(|&(x, y, c)| ((x as i64, y as i64), c))),
                Kind::FillContiguous => {
                    let a = e.area.unwrap();
                    let pts = area_points(&(a.0 as i64, a.1 as i64, a.2 as i64, a.3 as i64));
                    delivered.extend(pts.into_iter().zip(e.colors.iter().copied()));
                    if e.colors.len() as u64 > a.2 as u64 * a.3 as u64 && !matches!(op, Op::FillContiguous(..)) {
                        ctx.violation(format!("stack={}|stream-longer-than-area", sclass), case, || format!("parent fill_contiguous({:?}) got {} colours", a, e.colors.len()));
                    }
                }
                Kind::FillSolid => {
                    let a = e.area.unwrap();
                    for p in area_points(&(a.0 as i64, a.1 as i64, a.2 as i64, a.3 as i64)) {
                        delivered.push((p, u32::MAX));
                    }
                }
                Kind::Clear => {
                    for p in area_points(&pb) {
                        delivered.push((p, u32::MAX));
                    }
                }
            }
        }
        if let Some(cl) = &clip {
            if let Some((p, _)) = delivered.iter().find(|(p, _)| match cl {
                Some(c) => !contains(c, *p),
                None => true,
            }) {
                ctx.violation(format!("stack={}|pixel-outside-clip-reaches-parent", sclass), case, || format!("parent received point {:?}, composed clip (parent coordinates) {:?}", p, cl));
            }
        }
        // (5) default-fill parents: the ordered pixel sequence is exactly the documented one
        if !P::NATIVE {
            let got: Vec<((i64, i64), u32)> = delivered.clone();
            let want: Vec<((i64, i64), u32)> = effects.iter().map(|&(p, c)| (p, to_parent_colour(c))).collect();
            if got != want {
                let opk = match op {
                    Op::DrawIter(_) => "draw_iter",
                    Op::FillContiguous(..) => "fill_contiguous",
                    Op::FillSolid(..) => "fill_solid",
                    Op::Clear(_) => "clear",
                };
                let first = got.iter().zip(want.iter()).position(|(a, b)| a != b);
                ctx.violation(format!("stack={}|{}|pixel-sequence-differs-from-row-major-zip", sclass, opk), case, || {
                    format!("parent received {} pixels, documented sequence has {}; first difference at index {:?}: got {:?}, expected {:?}", got.len(), want.len(), first, first.and_then(|i| got.get(i)), first.and_then(|i| want.get(i)))
                });
            }
            if new_events.iter().any(|e| e.kind != Kind::DrawIter) {
                ctx.violation(format!("stack={}|default-target-received-fill-call", sclass), case, || "a draw_iter-only target logged a fill call".into());
            }
        }
        // (2) parent map == model map
        for (p, c) in effects {
            if contains(&pb, p) {
                model_map.set(p.0 as i32, p.1 as i32, to_parent_colour(c));
            }
        }
        if !parent.log().map.same(&model_map) {
            let d = parent.log().map.first_diff(&model_map);
            let opk = match op {
                Op::DrawIter(_) => "draw_iter",
                Op::FillContiguous(_, ref c) => {
                    let a = match &op {
                        Op::FillContiguous(a, _) => a,
                        _ => unreachable!(),
                    };
                    if c.len() < (a.size.width * a.size.height) as usize {
                        "fill_contiguous-short-stream"
                    } else {
                        "fill_contiguous"
                    }
                }
                Op::FillSolid(..) => "fill_solid",
                Op::Clear(_) => "clear",
            };
            ctx.violation(format!("stack={}|{}|parent-map-differs-from-model", sclass, opk), case, || {
                format!("after the last operation the parent differs from the model at {:?} (x, y, parent, model)\nparent:\n{}model:\n{}", d, parent.log().map.ascii(40), model_map.ascii(40))
            });
            return;
        }
        ctx.count("operations_checked", 1);
    }
    ctx.count(if P::NATIVE { "histories_native_parent" } else { "histories_default_fill_parent" }, 1);
    ctx.distinct("stack_shapes", egmon::rng::hash_str(&sclass));
    ctx.distinct("final_parent_maps", parent.log().map.hash());
    if !parent.log().map.is_empty() && !stack.is_empty() {
        ctx.nontrivial(egmon::rng::hash_str(&setup) ^ egmon::rng::hash_str(&trace.join(";")));
    }
    if ctx.wants_sample() {
        ctx.sample(|| jobj! {"setup" => setup.clone(), "ops" => trace.clone(), "parent_pixels" => parent.log().map.len() as u64});
    }
}

fn main() {
    main_with("c03", "exploration", |run: &Run| {
        run.set_rule(
            "Histories of 1..=12 operations (draw_iter with unordered/duplicate/outside points, fill_contiguous with streams of length 0, half, one short, exact and too long and with exact, upper-bound-only and absent size hints, fill_solid, clear; areas partly outside, zero-sized, disjoint, enclosing) issued through every nesting of translated/cropped/clipped up to depth 3 (all 40 shapes enumerated, parameters random) \
             optionally with color_converted innermost or outermost, over parents with arbitrary (non-origin, possibly empty) boxes, with native and with default fill methods; every written colour is unique. After each operation: parent map = model map, no delivered point outside the composed clip, exact row-major pixel sequence on default-fill parents, documented bounding box at every level, injected parent errors returned unchanged. \
             Stacks with a cropped level whose effective area is empty have no documented shift: only totality and box emptiness are judged. Non-trivial = non-empty stack and the parent ended with at least one pixel; distinct = distinct (setup, operation trace).",
        );
        run.assume("colour conversion is specified by the library's own Into (C13 judges those conversions)");
        // all stack shapes up to depth 3 enumerated: 1 + 3 + 9 + 27 = 40
        let mut shapes: Vec<Vec<u8>> = vec![vec![]];
        for a in 0..3u8 {
            shapes.push(vec![a]);
            for b in 0..3u8 {
                shapes.push(vec![a, b]);
                for c in 0..3u8 {
                    shapes.push(vec![a, b, c]);
                }
            }
        }
        let ns = shapes.len() as u64;
        let per = run.tier(2_500u64, 1_500_000u64);
        run.generate("all-stack-shapes-native-parent", ns * per, false, 0.3, |ctx, idx, rng| {
            history::<NativeTarget<Rgb565>>(ctx, rng, Conv::None, Some(shapes[(idx % ns) as usize].clone()));
        });
        run.generate("all-stack-shapes-default-fill-parent", ns * per, false, 0.3, |ctx, idx, rng| {
            history::<IterTarget<Rgb565>>(ctx, rng, Conv::None, Some(shapes[(idx % ns) as usize].clone()));
        });
        // virtual canvases: a fill_contiguous area far larger than the parent (65 536 columns and more,
        // tens of thousands of rows above the visible part) whose colour stream positions in O(1); the
        // offset of the first visible colour passes 2^31, 2^32 and more. The parent is a small window;
        // every visible point must receive the colour of its row-major index in the area, streams may
        // end inside the visible part (added after seeded `C03-12`: the offset computed in i32)
        let nv = run.tier(40_000u64, 4_000_000u64);
        run.generate("virtual-canvas", nv, false, 0.1, |ctx, idx, rng| {
            #[derive(Clone)]
            struct Virt {
                i: u64,
                len: u64,
                salt: u64,
            }
            fn colour_at(i: u64, salt: u64) -> u16 {
                (mix(i, salt) & 0xffff) as u16
            }
            impl Iterator for Virt {
                type Item = Rgb565;
                fn next(&mut self) -> Option<Rgb565> {
                    if self.i >= self.len {
                        return None;
                    }
                    let c = colour_at(self.i, self.salt);
                    self.i += 1;
                    Some(Rgb565::from(embedded_graphics::pixelcolor::raw::RawU16::new(c)))
                }
                fn nth(&mut self, n: usize) -> Option<Rgb565> {
                    self.i = self.i.saturating_add(n as u64);
                    self.next()
                }
                fn size_hint(&self) -> (usize, Option<usize>) {
                    let r = self.len.saturating_sub(self.i) as usize;
                    (r, Some(r))
                }
            }
            let w: u64 = match rng.below(10) {
                0 => 65_536,
                1 => 46_341,
                2 => 1 << rng.u32r(12, 20),
                3 => rng.u32r(60_000, 70_000) as u64,
                4 | 5 => rng.u32r(1, 1100) as u64,
                6 => *rng.pick(&[255u64, 256, 257, 771, 1285, 4369, 21_845, 65_535, 65_537]),
                _ => rng.u32r(300, 1 << 20) as u64,
            };
            // offset of the first visible colour in the stream: around 2^31 and 2^32, random, or an
            // *exact* special value - a multiple of 2^16 - 1, 2^16, 2^16 + 1, 255, 256, 32 767, 4096, a
            // power of two or its neighbour (seeded `C03-13`: the skip applied in steps of 65 535 with
            // quotient and remainder taken from different bases - wrong for exact multiples only)
            let exact = rng.chance(1, 2);
            let target: u64 = if exact {
                let k = rng.u32r(1, 40) as u64;
                match rng.below(10) {
                    0 | 1 => k * 65_535,
                    2 => k * 65_536,
                    3 => k * 65_537,
                    4 => k * *rng.pick(&[255u64, 256, 257, 4095, 4096, 32_767, 32_768]),
                    5 => 1u64 << rng.u32r(8, 36),
                    6 => (1u64 << rng.u32r(8, 36)) - 1,
                    7 => (1u64 << rng.u32r(8, 36)) + 1,
                    8 => k * 65_535 * 65_536,
                    _ => (k * 65_535).wrapping_mul(rng.u32r(1, 70_000) as u64) & ((1 << 36) - 1),
                }
            } else {
                match rng.below(8) {
                    0 => (1u64 << 31) - rng.below(3 * w),
                    1 => (1u64 << 31) + rng.below(3 * w),
                    2 => (1u64 << 32) - rng.below(3 * w),
                    3 => (1u64 << 32) + rng.below(3 * w),
                    4 => rng.below(1 << 20),
                    5 => 1u64 << rng.u32r(20, 36),
                    _ => rng.below(1u64 << 36),
                }
            };
            let rows_above = (target / w).min((1 << 20) as u64);
            // exact targets fix the column as well (when the window still fits into the area)
            let cols_left = if exact && rows_above == target / w { target % w } else if w > 40 { rng.below(w - 20) } else { 0 };
            let (ax, ay) = (rng.i32r(-2000, 2000), rng.i32r(-2000, 2000));
            let (pw, ph) = (rng.u32r(1, 14), rng.u32r(1, 9));
            let px0 = ax as i64 + cols_left as i64 + if exact { 0 } else { rng.i32r(-3, 3) as i64 };
            let py0 = ay as i64 + rows_above as i64;
            let pbox = rect(px0 as i32, py0 as i32, pw, ph);
            let rows_below = rng.below(4) as i64 - 1; // -1: the area ends inside the window
            let ah = (rows_above as i64 + ph as i64 + rows_below).max(0) as u32;
            let area = rect(ax, ay, w as u32, ah);
            let clip = match if exact { rng.below(2) * 2 } else { rng.below(3) } {
                0 => pbox,
                1 => rect(pbox.top_left.x + rng.i32r(-2, 3), pbox.top_left.y + rng.i32r(-2, 3), rng.u32r(0, pw + 3), rng.u32r(0, ph + 3)),
                _ => rect(ax - 5, ay - 5, w as u32 + 10, ah + 10),
            };
            let total = w * ah as u64;
            let salt = rng.next_u64();
            let first_visible = rows_above * w + cols_left;
            let len = match rng.below(4) {
                0 => first_visible + rng.below(w * 2 + 3),
                1 => total.saturating_sub(rng.below(w + 2)),
                2 => total + 5,
                _ => total,
            };
            let native = idx % 2 == 0;
            let translated = rng.chance(1, 3);
            let (tx, ty) = if translated { (rng.i32r(-300, 300), rng.i32r(-300, 300)) } else { (0, 0) };
            let case = || format!("parent box {:?} ({} parent){}, clipped(&{:?}).fill_contiguous(&{:?}, stream of {} colours with O(1) nth); first visible colour at offset {}", rt(&pbox), if native { "native-fill" } else { "default-fill" }, if translated { format!(", translated(({},{}))", tx, ty) } else { String::new() }, rt(&clip), rt(&area), len, first_visible);
            ctx.eval();
            let stream = Virt { i: 0, len, salt };
            // the adapters see coordinates shifted by -(tx,ty); the parent window is placed accordingly
            let parent_box = rect(pbox.top_left.x + tx, pbox.top_left.y + ty, pw, ph);
            let got: PixMap = if native {
                let mut parent = NativeTarget::<Rgb565>::new(parent_box);
                {
                    let mut t = parent.translated(Point::new(tx, ty));
                    let mut c = t.clipped(&clip);
                    let _ = c.fill_contiguous(&area, stream);
                }
                if parent.log.out_of_box > 0 {
                    ctx.violation("virtual-canvas|pixel-outside-parent-box", case, || format!("{} items outside the parent's box reached it", parent.log.out_of_box));
                    return;
                }
                parent.log.map.clone()
            } else {
                let mut parent = IterTarget::<Rgb565>::new(parent_box);
                {
                    let mut t = parent.translated(Point::new(tx, ty));
                    let mut c = t.clipped(&clip);
                    let _ = c.fill_contiguous(&area, stream);
                }
                if parent.log.out_of_box > 0 {
                    ctx.violation("virtual-canvas|pixel-outside-parent-box", case, || format!("{} items outside the parent's box reached it", parent.log.out_of_box));
                    return;
                }
                parent.log.map.clone()
            };
            let mut want = PixMap::new();
            let vis = isect(&r4(&pbox), &r4(&clip)).and_then(|v| isect(&v, &r4(&area)));
            if let Some(v) = vis {
                for y in v.1..v.1 + v.3 {
                    for x in v.0..v.0 + v.2 {
                        let i = (y - ay as i64) as u64 * w + (x - ax as i64) as u64;
                        if i < len {
                            want.set(x as i32 + tx, y as i32 + ty, colour_at(i, salt) as u32);
                        }
                    }
                }
            }
            if !got.same(&want) {
                let d = got.first_diff(&want);
                ctx.violation(format!("virtual-canvas|parent-map-differs-from-model|offset>={}", if first_visible >= 1 << 32 { "2^32" } else if first_visible >= 1 << 31 { "2^31" } else { "0" }), case, || format!("first difference (x, y, got, expected): {:?}; {} pixels set, {} expected", d, got.len(), want.len()));
                return;
            }
            if !want.is_empty() {
                ctx.nontrivial(mix(mix(w, first_visible), len));
            }
            ctx.count("virtual_canvas_fills", 1);
            ctx.max("max_offset_of_first_visible_colour", first_visible);
            if first_visible >= 1 << 31 {
                ctx.count("virtual_canvas_fills_with_offset_beyond_2^31", 1);
            }
            if ctx.wants_sample() {
                ctx.sample(|| jobj! {"case" => case(), "pixels_expected" => want.len() as u64});
            }
        });
        let nc = run.tier(40_000u64, 20_000_000u64);
        run.generate("color-converted", nc, false, 0.3, |ctx, idx, rng| {
            let conv = if idx % 2 == 0 { Conv::Outer } else { Conv::Inner };
            if idx % 4 < 2 {
                history::<NativeTarget<Rgb565>>(ctx, rng, conv, None);
            } else {
                history::<IterTarget<Rgb565>>(ctx, rng, conv, None);
            }
        });
    })
}
