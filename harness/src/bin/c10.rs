//! C10 — Framebuffer reads back what was written, in the layout of ImageRaw.
//! History + executable model: random write histories with a reference map updated in lockstep.
use egmon::{
    jobj, main_with,
    rawmodel::{model_pixel, stride},
    rng::mix,
    target::{rect, unbounded_box, Col, IterTarget, PixMap, Recorder},
    Ctx, Rng, Run,
};
use embedded_graphics::{
    framebuffer::Framebuffer,
    image::{GetPixel, Image, ImageRaw},
    pixelcolor::{
        raw::{BigEndianLsb0, DataOrder, LittleEndianMsb0, RawU32},
        *,
    },
    prelude::*,
    primitives::{Circle, PrimitiveStyleBuilder, Rectangle},
    Pixel,
};
use std::convert::Infallible;

#[derive(Copy, Clone, PartialEq, Eq, Debug)]
pub struct C32(RawU32);
impl PixelColor for C32 {
    type Raw = RawU32;
}
impl From<RawU32> for C32 {
    fn from(r: RawU32) -> Self {
        C32(r)
    }
}
impl From<C32> for RawU32 {
    fn from(c: C32) -> Self {
        c.0
    }
}

/// uniform access to the per-raw-type inherent API of Framebuffer
trait Fb<C: Col>: DrawTarget<Color = C, Error = Infallible> + GetPixel<Color = C> + Sized {
    const W: usize;
    const H: usize;
    const N: usize;
    const ALT: bool;
    fn make() -> Self;
    fn clone_fb(&self) -> Self;
    fn set_px(&mut self, p: Point, c: C);
    fn bytes(&self) -> &[u8];
    fn bytes_mut(&mut self) -> &mut [u8];
    fn draw_as_image<T: DrawTarget<Color = C>>(&self, t: &mut T, o: Point) -> Result<(), T::Error>;
    fn image_pixel(&self, p: Point) -> Option<C>;
}

macro_rules! fb_impl {
    ($c:ty, $o:ty) => {
        impl<const W: usize, const H: usize, const N: usize> Fb<$c> for Framebuffer<$c, <$c as PixelColor>::Raw, $o, W, H, N> {
            const W: usize = W;
            const H: usize = H;
            const N: usize = N;
            const ALT: bool = <$o as DataOrder>::IS_ALTERNATE_ORDER;
            fn make() -> Self {
                Self::new()
            }
            fn clone_fb(&self) -> Self {
                self.clone()
            }
            fn set_px(&mut self, p: Point, c: $c) {
                self.set_pixel(p, c)
            }
            fn bytes(&self) -> &[u8] {
                self.data()
            }
            fn bytes_mut(&mut self) -> &mut [u8] {
                self.data_mut()
            }
            fn draw_as_image<T: DrawTarget<Color = $c>>(&self, t: &mut T, o: Point) -> Result<(), T::Error> {
                let img: ImageRaw<'_, $c, $o> = self.as_image();
                Image::new(&img, o).draw(t)
            }
            fn image_pixel(&self, p: Point) -> Option<$c> {
                // an ImageRaw of the same colour type and data order over the used prefix
                let used = stride(W as u32, <$c as Col>::bits()) * H;
                let img = ImageRaw::<$c, $o>::new(&self.data()[..used], Size::new(W as u32, H as u32)).ok()?;
                img.pixel(p)
            }
        }
    };
}
macro_rules! fb_impl_both {
    ($c:ty) => {
        fb_impl!($c, LittleEndianMsb0);
        fb_impl!($c, BigEndianLsb0);
    };
}
fb_impl_both!(BinaryColor);
fb_impl_both!(Gray2);
fb_impl_both!(Gray4);
fb_impl_both!(Gray8);
fb_impl_both!(Rgb565);
fb_impl_both!(Rgb888);
fb_impl_both!(C32);

const TAIL: u8 = 0xA5;

fn rand_point(rng: &mut Rng, w: i32, h: i32) -> Point {
    match rng.below(10) {
        0 => Point::new(-rng.i32r(1, 3), rng.i32r(-1, h)),
        1 => Point::new(rng.i32r(-1, w), -rng.i32r(1, 3)),
        2 => Point::new(w + rng.i32r(0, 2), rng.i32r(0, h)),
        3 => Point::new(rng.i32r(0, w), h + rng.i32r(0, 2)),
        4 => *rng.pick(&[Point::new(i32::MIN, 0), Point::new(0, i32::MAX), Point::new(i32::MAX, i32::MAX), Point::new(-1, -1), Point::new(i32::MIN, i32::MIN)]),
        _ => Point::new(rng.i32r(0, w - 1), rng.i32r(0, h - 1)),
    }
}

fn rand_rect(rng: &mut Rng, w: i32, h: i32) -> Rectangle {
    rect(rng.i32r(-3, w + 1), rng.i32r(-3, h + 1), rng.u32r(0, w as u32 + 4), rng.u32r(0, h as u32 + 4))
}

struct Model {
    w: i32,
    h: i32,
    map: PixMap, // explicit colours of written in-range points
}
impl Model {
    fn inside(&self, x: i32, y: i32) -> bool {
        x >= 0 && y >= 0 && x < self.w && y < self.h
    }
    fn write(&mut self, x: i32, y: i32, c: u32) -> bool {
        if self.inside(x, y) {
            self.map.set(x, y, c);
            true
        } else {
            false
        }
    }
    fn get(&self, x: i32, y: i32) -> Option<u32> {
        if self.inside(x, y) {
            Some(self.map.get(x, y).unwrap_or(0))
        } else {
            None
        }
    }
}

fn history<C, F>(ctx: &mut Ctx, name: &'static str, rng: &mut Rng)
where
    C: Col,
    F: Fb<C>,
{
    let (w, h) = (F::W as i32, F::H as i32);
    let bpp = C::bits();
    let used = stride(w as u32, bpp) * h as usize;
    let mut fb = F::make();
    // oversized tail is pre-filled so that any write to it is visible
    for b in fb.bytes_mut()[used..].iter_mut() {
        *b = TAIL;
    }
    let mut model = Model { w, h, map: PixMap::new() };
    let mask = if bpp == 32 { u32::MAX } else { (1u32 << bpp) - 1 };
    let n_ops = rng.usizer(1, 14);
    let mut trace: Vec<String> = Vec::new();
    let mut wrote_inside = 0u64;
    for _ in 0..n_ops {
        // now and then the history continues on a clone of the framebuffer (and the original is
        // dropped): a copy must carry every byte, the unused tail included (seeded `C10-18`: a
        // hand-written Clone that copies width x height x bpp / 8 bytes, ignoring the row padding)
        if !trace.is_empty() && rng.chance(1, 7) {
            let copy = fb.clone_fb();
            fb = copy;
            trace.push("continue on clone()".to_string());
        }
        let before = fb.bytes().to_vec();
        let mut any_inside = false;
        let color = C::from_u32(rng.next_u32() & mask);
        let cu = color.to_u32();
        match rng.below(8) {
            0 | 1 => {
                let p = rand_point(rng, w, h);
                fb.set_px(p, color);
                any_inside |= model.write(p.x, p.y, cu);
                trace.push(format!("set_pixel(({},{}), {:#x})", p.x, p.y, cu));
            }
            2 => {
                let k = rng.usizer(0, 12);
                let mut px = Vec::new();
                for _ in 0..k {
                    let p = rand_point(rng, w, h);
                    let c = C::from_u32(rng.next_u32() & mask);
                    px.push(Pixel(p, c));
                }
                let _ = fb.draw_iter(px.iter().copied());
                for Pixel(p, c) in &px {
                    any_inside |= model.write(p.x, p.y, c.to_u32());
                }
                trace.push(format!("draw_iter({:?})", px.iter().map(|Pixel(p, c)| (p.x, p.y, c.to_u32())).collect::<Vec<_>>()));
            }
            3 => {
                let a = rand_rect(rng, w, h);
                let _ = fb.fill_solid(&a, color);
                for y in a.top_left.y..a.top_left.y + a.size.height as i32 {
                    for x in a.top_left.x..a.top_left.x + a.size.width as i32 {
                        any_inside |= model.write(x, y, cu);
                    }
                }
                trace.push(format!("fill_solid({:?}, {:#x})", egmon::target::rt(&a), cu));
            }
            4 => {
                let a = rand_rect(rng, w, h);
                let total = (a.size.width * a.size.height) as usize;
                let len = match rng.below(4) {
                    0 => 0,
                    1 => total / 2,
                    2 => total,
                    _ => total + 5,
                };
                let cols: Vec<C> = (0..len).map(|_| C::from_u32(rng.next_u32() & mask)).collect();
                let _ = fb.fill_contiguous(&a, cols.iter().copied());
                let mut it = cols.iter();
                'o: for y in a.top_left.y..a.top_left.y + a.size.height as i32 {
                    for x in a.top_left.x..a.top_left.x + a.size.width as i32 {
                        match it.next() {
                            Some(c) => any_inside |= model.write(x, y, c.to_u32()),
                            None => break 'o,
                        }
                    }
                }
                trace.push(format!("fill_contiguous({:?}, {} colours)", egmon::target::rt(&a), len));
            }
            5 => {
                let _ = fb.clear(color);
                for y in 0..h {
                    for x in 0..w {
                        any_inside |= model.write(x, y, cu);
                    }
                }
                trace.push(format!("clear({:#x})", cu));
            }
            6 => {
                // an arbitrary drawable: styled circle through the real draw() path; the expected
                // pixels come from the same drawable rendered on a recording target
                let d = rng.u32r(0, (w.max(h) + 3) as u32);
                let tl = Point::new(rng.i32r(-3, w), rng.i32r(-3, h));
                let c2 = C::from_u32(rng.next_u32() & mask);
                let style = PrimitiveStyleBuilder::new().fill_color(color).stroke_color(c2).stroke_width(rng.u32r(0, 2)).build();
                let circle = Circle::new(tl, d).into_styled(style);
                let mut rec = IterTarget::<C>::new(unbounded_box());
                rec.log.keep_pixels = true;
                let _ = circle.draw(&mut rec);
                let _ = circle.draw(&mut fb);
                for e in &rec.log().events {
                    for &(x, y, c) in &e.px {
                        any_inside |= model.write(x, y, c);
                    }
                }
                trace.push(format!("draw(Circle(({},{}), {}) fill {:#x} stroke {:#x})", tl.x, tl.y, d, cu, c2.to_u32()));
            }
            _ => {
                // writes that are entirely out of range
                let p = *rng.pick(&[Point::new(-1, 0), Point::new(0, -1), Point::new(w, 0), Point::new(0, h), Point::new(w, h), Point::new(i32::MIN, i32::MIN), Point::new(i32::MAX, 0)]);
                fb.set_px(p, color);
                let _ = fb.draw_iter([Pixel(p, color)]);
                trace.push(format!("out-of-range set_pixel/draw_iter(({},{}))", p.x, p.y));
            }
        }
        if any_inside {
            wrote_inside += 1;
        }
        ctx.eval();
        let case = || format!("{} {}x{} N={} ops: {}", name, w, h, F::N, trace.join("; "));
        // writes outside change no byte
        if !any_inside && fb.bytes() != before.as_slice() {
            ctx.violation(format!("{}|out-of-range-write-changes-data", klass(bpp, F::ALT)), case, || format!("data before {:02x?} after {:02x?}", before, fb.bytes()));
            return;
        }
        // bytes beyond the used prefix are never modified
        if fb.bytes()[used..].iter().any(|&b| b != TAIL) {
            ctx.violation(format!("{}|tail-bytes-modified", klass(bpp, F::ALT)), case, || format!("data {:02x?} (used prefix {} bytes)", fb.bytes(), used));
            return;
        }
        // pixel(p) = last write / zero colour, None outside
        for y in -2..h + 2 {
            for x in -2..w + 2 {
                let got = fb.pixel(Point::new(x, y)).map(|c| c.to_u32());
                let want = model.get(x, y);
                if got != want {
                    let k = match (got, want) {
                        (Some(_), None) => "pixel-some-outside",
                        (None, Some(_)) => "pixel-none-inside",
                        _ => "pixel-differs-from-last-write",
                    };
                    ctx.violation(format!("{}|{}", klass(bpp, F::ALT), k), case, || {
                        let at = find_value(&fb, w, h, want);
                        format!("pixel(({},{})) = {:x?}, model {:x?}; data {:02x?}; the written value reads back at {:?}", x, y, got, want, fb.bytes(), at)
                    });
                    return;
                }
                // the bytes are in the documented ImageRaw layout (independent decoder)
                if let Some(wv) = want {
                    let dv = C::from_u32(model_pixel(&fb.bytes()[..used], w as u32, bpp, F::ALT, x as u32, y as u32)).to_u32();
                    if dv != wv {
                        ctx.violation(format!("{}|data-not-in-documented-layout", klass(bpp, F::ALT)), case, || format!("documented layout decodes ({},{}) as {:#x}, model {:#x}; data {:02x?}", x, y, dv, wv, fb.bytes()));
                        return;
                    }
                    // and an ImageRaw built over data()[..BUFFER_SIZE] agrees
                    let iv = fb.image_pixel(Point::new(x, y)).map(|c| c.to_u32());
                    if iv != Some(wv) {
                        ctx.violation(format!("{}|imageraw-over-data-disagrees", klass(bpp, F::ALT)), case, || format!("ImageRaw over data() gives {:x?} at ({},{}), model {:#x}", iv, x, y, wv));
                        return;
                    }
                }
            }
        }
        for p in [Point::new(i32::MIN, 0), Point::new(0, i32::MAX), Point::new(i32::MAX, i32::MIN)] {
            if fb.pixel(p).is_some() {
                ctx.violation(format!("{}|pixel-some-outside", klass(bpp, F::ALT)), case, || format!("pixel({:?}) is Some", p));
                return;
            }
        }
    }
    // as_image() drawn on a recording target reproduces the content
    ctx.eval();
    let o = Point::new(rng.i32r(-9, 9), rng.i32r(-9, 9));
    let mut rec = IterTarget::<C>::new(unbounded_box());
    let _ = fb.draw_as_image(&mut rec, o);
    let mut want = PixMap::new();
    for y in 0..h {
        for x in 0..w {
            want.set(x + o.x, y + o.y, model.get(x, y).unwrap());
        }
    }
    if !rec.log().map.same(&want) {
        ctx.violation(
            format!("{}|as_image-differs", klass(bpp, F::ALT)),
            || format!("{} {}x{} N={} ops: {}", name, w, h, F::N, trace.join("; ")),
            || format!("drawing as_image() at {:?} differs from the written content at {:?}", o, rec.log().map.first_diff(&want)),
        );
    }
    // ... and on a bounded target the visible part of it (edges coinciding with or cutting through
    // the image, only its first column and row visible)
    if let Some(boxes) = egmon::target::cut_boxes(&want) {
        ctx.eval();
        let bx = boxes[(rng.below(5)) as usize];
        let mut rec = IterTarget::<C>::new(bx);
        // (every second one consumes what it receives with for_each instead of a for loop)
        rec.log_mut().internal_iteration = want.hash() / 5 % 2 == 0;
        let _ = fb.draw_as_image(&mut rec, o);
        let want_in = egmon::target::restrict(&want, &bx);
        // (and on a native target that skips the colours of invisible points in bulk with nth)
        let mut skp = egmon::target::NativeTarget::<C>::new(bx);
        skp.log_mut().skip_invisible_with_nth = true;
        let _ = fb.draw_as_image(&mut skp, o);
        if !skp.log().map.same(&want_in) {
            ctx.violation(
                format!("{}|as_image-on-bounded-target-differs|skipping-with-nth", klass(bpp, F::ALT)),
                || format!("{} {}x{} N={} ops: {}", name, w, h, F::N, trace.join("; ")),
                || format!("drawing as_image() at {:?} on a native target with box {:?} that skips invisible colours with nth differs from the visible part of the written content at {:?}", o, egmon::target::rt(&bx), skp.log().map.first_diff(&want_in)),
            );
        }
        if !rec.log().map.same(&want_in) {
            ctx.violation(
                format!("{}|as_image-on-bounded-target-differs", klass(bpp, F::ALT)),
                || format!("{} {}x{} N={} ops: {}", name, w, h, F::N, trace.join("; ")),
                || format!("drawing as_image() at {:?} on target box {:?} differs from the visible part of the written content at {:?}", o, egmon::target::rt(&bx), rec.log().map.first_diff(&want_in)),
            );
        }
    }
    if fb.bounding_box() != rect(0, 0, w as u32, h as u32) {
        ctx.violation(format!("{}|size", klass(bpp, F::ALT)), || name.to_string(), || format!("{:?}", fb.bounding_box()));
    }
    ctx.count("operations", n_ops as u64);
    ctx.count("operations_that_wrote_inside", wrote_inside);
    ctx.distinct("final_buffers", egmon::rng::hash_str(&format!("{:?}", fb.bytes())));
    if wrote_inside >= 2 {
        ctx.nontrivial(mix(egmon::rng::hash_str(name), egmon::rng::hash_str(&trace.join(";"))));
    }
    if ctx.wants_sample() {
        ctx.sample(|| jobj! {"framebuffer" => name, "size" => format!("{}x{}", w, h), "N" => F::N as u64, "ops" => trace.clone(), "final_data" => format!("{:02x?}", fb.bytes())});
    }
}

fn klass(bpp: u32, alt: bool) -> String {
    format!("{}/{}", if bpp < 8 { "sub-byte" } else if bpp == 8 { "8bpp" } else { "multi-byte" }, if alt { "BigEndianLsb0" } else { "LittleEndianMsb0" })
}

fn find_value<C: Col, F: Fb<C>>(fb: &F, w: i32, h: i32, want: Option<u32>) -> Option<(i32, i32)> {
    let want = want?;
    if want == 0 {
        return None;
    }
    for y in 0..h {
        for x in 0..w {
            if fb.pixel(Point::new(x, y)).map(|c| c.to_u32()) == Some(want) {
                return Some((x, y));
            }
        }
    }
    None
}

fn main() {
    main_with("c10", "exploration", |run| {
        run.set_rule(
            "Framebuffer instantiations: 7 colour depths (1,2,4,8,16,24,32 bits) x 2 data orders x sizes {1x1,3x2,5x3,8x2,9x4,13x7 and the portrait shapes 2x5,4x9,7x13} with exact buffers and oversized (N+3, tail pre-filled with 0xA5) buffers for four of the sizes, plus six wide instantiations (257..2051 pixels per row) and three tall ones (257..300 rows); \
             per instantiation random histories of 1..=14 operations (set_pixel in/out of range incl. i32::MIN/MAX, draw_iter, fill_solid, fill_contiguous with short/exact/long streams, clear, a styled circle via draw(), wholly out-of-range writes); \
             after every operation pixel() is compared with the reference map on the area plus a ring, data() with the documented layout, the tail bytes with their pre-fill. Non-trivial = at least two operations changed in-range pixels; distinct = distinct (instantiation, operation trace).",
        );
        run.assume("reference map updated in lockstep from the documented meaning of each DrawTarget operation; layout decoder written from the documentation");
        let reps = run.tier(1500u64, 400_000u64);
        macro_rules! inst {
            ($c:ty, $o:ty, $w:expr, $h:expr, $extra:expr) => {{
                const N: usize = (($w * <$c as PixelColor>::Raw::BITS_PER_PIXEL + 7) / 8) * $h + $extra;
                type F = Framebuffer<$c, <$c as PixelColor>::Raw, $o, $w, $h, N>;
                let name: &'static str = Box::leak(format!("Framebuffer<{},{},{}x{},N={}>", <$c as Col>::name(), stringify!($o), $w, $h, N).into_boxed_str());
                run.generate(name, reps, false, 0.05, |ctx, _idx, rng| history::<$c, F>(ctx, name, rng));
            }};
        }
        macro_rules! sizes {
            ($c:ty, $o:ty) => {
                inst!($c, $o, 1, 1, 0);
                inst!($c, $o, 3, 2, 0);
                inst!($c, $o, 5, 3, 0);
                inst!($c, $o, 8, 2, 0);
                inst!($c, $o, 9, 4, 0);
                inst!($c, $o, 13, 7, 0);
                inst!($c, $o, 3, 2, 3);
                inst!($c, $o, 9, 4, 3);
                inst!($c, $o, 13, 7, 3);
                // portrait shapes (more rows than columns)
                inst!($c, $o, 2, 5, 0);
                inst!($c, $o, 4, 9, 3);
                inst!($c, $o, 7, 13, 0);
            };
        }
        macro_rules! orders {
            ($c:ty) => {
                sizes!($c, LittleEndianMsb0);
                sizes!($c, BigEndianLsb0);
            };
        }
        use embedded_graphics::pixelcolor::raw::RawData;
        // wide framebuffers: rows longer than 255 pixels / bytes
        let wide_reps = (reps / 20).max(40);
        macro_rules! wide {
            ($c:ty, $o:ty, $w:expr, $h:expr, $extra:expr) => {{
                const N: usize = (($w * <$c as PixelColor>::Raw::BITS_PER_PIXEL + 7) / 8) * $h + $extra;
                type F = Framebuffer<$c, <$c as PixelColor>::Raw, $o, $w, $h, N>;
                let name: &'static str = Box::leak(format!("Framebuffer<{},{},{}x{},N={}>", <$c as Col>::name(), stringify!($o), $w, $h, N).into_boxed_str());
                run.generate(name, wide_reps, false, 0.05, |ctx, _idx, rng| history::<$c, F>(ctx, name, rng));
            }};
        }
        wide!(BinaryColor, LittleEndianMsb0, 300, 2, 0);
        wide!(BinaryColor, BigEndianLsb0, 2051, 2, 3);
        wide!(Gray4, BigEndianLsb0, 515, 2, 0);
        wide!(Gray8, LittleEndianMsb0, 257, 3, 5);
        wide!(Rgb565, BigEndianLsb0, 260, 2, 0);
        wide!(Rgb888, LittleEndianMsb0, 300, 2, 3);
        // tall framebuffers: more than 255 rows
        wide!(BinaryColor, BigEndianLsb0, 3, 300, 0);
        wide!(Gray2, LittleEndianMsb0, 5, 260, 3);
        wide!(Rgb565, LittleEndianMsb0, 2, 257, 0);
        // fills whose far edge lies beyond i32::MAX while the area still overlaps the framebuffer (one
        // row or one column of about 2^31 points: the documented default walks them all, a few seconds
        // per case; seeded `C10-13`: a clipping fast path computing `start + length` with wrapping_add)
        macro_rules! huge_fill {
            ($c:ty, $o:ty, $w:expr, $h:expr, $reps:expr) => {{
                const N: usize = (($w * <$c as PixelColor>::Raw::BITS_PER_PIXEL + 7) / 8) * $h;
                type F = Framebuffer<$c, <$c as PixelColor>::Raw, $o, $w, $h, N>;
                let name: &'static str = Box::leak(format!("fill-reaching-i32-max/Framebuffer<{},{},{}x{}>", <$c as Col>::name(), stringify!($o), $w, $h).into_boxed_str());
                run.generate(name, $reps, false, 0.05, |ctx, idx, rng| {
                    let mut fb = F::make();
                    let (w, h) = ($w as i32, $h as i32);
                    let (x0, y0) = (rng.i32r(-2, w - 1), rng.i32r(0, h - 1));
                    let (x0, y0) = if idx % 2 == 0 { (x0, y0) } else { (rng.i32r(0, w - 1), rng.i32r(-2, h - 1)) };
                    let long = match rng.below(4) {
                        0 => i32::MAX as u32,
                        1 => (i32::MAX as u32) + 1 + rng.u32r(0, 9),
                        2 => (i32::MAX as u32) - rng.u32r(0, (w.max(h) as u32).min(3)),
                        _ => (i32::MAX as u32) + rng.u32r(0, 70_000),
                    };
                    let area = if idx % 2 == 0 { rect(x0, y0, long, 1) } else { rect(x0, y0, 1, long) };
                    let v = 1 + rng.below(0xffff) as u32;
                    let c = <$c as Col>::from_u32(v);
                    let case = || format!("{} fresh framebuffer, fill_solid({:?}, {:#x})", name, egmon::target::rt(&area), c.to_u32());
                    ctx.eval();
                    let _ = fb.fill_solid(&area, c);
                    let zero = <$c as Col>::from_u32(0).to_u32();
                    for y in 0..h {
                        for x in 0..w {
                            let inside = if idx % 2 == 0 { y == y0 && x >= x0 } else { x == x0 && y >= y0 };
                            let want = if inside { c.to_u32() } else { zero };
                            let got = fb.pixel(Point::new(x, y)).map(|c| c.to_u32());
                            if got != Some(want) {
                                ctx.violation("huge-fill|pixel-differs-from-last-write", case, || format!("pixel(({},{})) = {:x?}, expected {:#x}", x, y, got, want));
                                return;
                            }
                        }
                    }
                    if c.to_u32() != zero {
                        ctx.nontrivial(mix(egmon::rng::hash_str(name), mix(long as u64, ((x0 as u64) << 32) ^ y0 as u64)));
                    }
                    ctx.count("fills_reaching_beyond_i32_max", 1);
                });
            }};
        }
        let hreps = run.tier(2u64, 24u64);
        huge_fill!(Gray8, LittleEndianMsb0, 8, 4, hreps);
        huge_fill!(BinaryColor, BigEndianLsb0, 13, 5, hreps);
        huge_fill!(Rgb565, BigEndianLsb0, 5, 3, hreps);
        huge_fill!(Gray4, LittleEndianMsb0, 9, 4, hreps);
        orders!(BinaryColor);
        orders!(Gray2);
        orders!(Gray4);
        orders!(Gray8);
        orders!(Rgb565);
        orders!(Rgb888);
        orders!(C32);
    })
}

#[allow(dead_code)]
fn _unused(_: &Run) {}
