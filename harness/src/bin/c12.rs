//! C12 — colours survive the trip through their raw representation.
//! Exhaustive enumeration of raw values / channel triples against the documented bit layouts.
use egmon::{jobj, main_with, rng::mix, Ctx, Run};
use embedded_graphics::pixelcolor::{
    raw::{BigEndianLsb0, DataOrder, LittleEndianMsb0, RawData, RawU1, RawU16, RawU2, RawU24, RawU32, RawU4, RawU8, ToBytes},
    *,
};

#[derive(Clone, Copy)]
struct Layout {
    name: &'static str,
    bpp: u32,
    rb: u32,
    gb: u32,
    bb: u32,
    bgr: bool,
}

impl Layout {
    fn pos(&self) -> (u32, u32, u32) {
        if self.bgr {
            (0, self.rb, self.rb + self.gb)
        } else {
            (self.gb + self.bb, self.bb, 0)
        }
    }
    fn max(&self) -> (u32, u32, u32) {
        ((1 << self.rb) - 1, (1 << self.gb) - 1, (1 << self.bb) - 1)
    }
    fn used_mask(&self) -> u32 {
        let (rp, gp, bp) = self.pos();
        let (rm, gm, bm) = self.max();
        (rm << rp) | (gm << gp) | (bm << bp)
    }
    fn bpp_mask(&self) -> u32 {
        if self.bpp == 32 {
            u32::MAX
        } else {
            (1 << self.bpp) - 1
        }
    }
}

fn bytes_be(v: u32, bpp: u32) -> Vec<u8> {
    let n = ((bpp + 7) / 8) as usize;
    v.to_be_bytes()[4 - n..].to_vec()
}
fn bytes_le(v: u32, bpp: u32) -> Vec<u8> {
    let n = ((bpp + 7) / 8) as usize;
    v.to_le_bytes()[..n].to_vec()
}

/// all checks for one raw storage value `v` (arbitrary upper bits) of an RGB type
fn check_rgb_raw<T>(ctx: &mut Ctx, l: &Layout, v: u32)
where
    T: RgbColor + core::fmt::Debug + IntoStorage + ToBytes,
    <T::Raw as RawData>::Storage: Into<u32> + Copy,
    <T as IntoStorage>::Storage: Into<u32>,
    <T as ToBytes>::Bytes: AsRef<[u8]>,
    <T::Raw as ToBytes>::Bytes: AsRef<[u8]>,
    T::Raw: Copy,
{
    ctx.eval();
    let case = || format!("{} raw value {:#x}", l.name, v);
    let raw = <T::Raw as RawData>::from_u32(v);
    let raw_v: u32 = raw.into_inner().into();
    // RawData::from_u32 truncates to the storage type and masks to BITS_PER_PIXEL
    if raw_v != v & l.bpp_mask() {
        ctx.violation(format!("{}|raw-new-mask", l.name), case, || format!("Raw::from_u32({:#x}).into_inner() = {:#x}", v, raw_v));
    }
    let c = T::from(raw);
    let raw2: T::Raw = c.into();
    let raw2_v: u32 = raw2.into_inner().into();
    if raw2_v & !l.bpp_mask() != 0 {
        ctx.violation(format!("{}|raw-exceeds-bpp", l.name), case, || format!("colour -> raw = {:#x}", raw2_v));
    }
    // raw -> colour -> raw only clears the unused bits
    let want = v & l.used_mask();
    if raw2_v != want {
        ctx.violation(format!("{}|raw-colour-raw", l.name), case, || format!("raw->colour->raw = {:#x}, expected {:#x} (only unused bits cleared)", raw2_v, want));
    }
    // idempotent, and colour -> raw -> colour is the identity
    let c2 = T::from(raw2);
    let raw3: T::Raw = c2.into();
    let raw3_v: u32 = raw3.into_inner().into();
    if c2 != c || raw3_v != raw2_v {
        ctx.violation(format!("{}|colour-raw-colour", l.name), case, || format!("{:?} -> raw {:#x} -> {:?} -> raw {:#x}", c, raw2_v, c2, raw3_v));
    }
    // channel accessors follow the documented layout
    let (rp, gp, bp) = l.pos();
    let (rm, gm, bm) = l.max();
    let want_ch = ((v >> rp) & rm, (v >> gp) & gm, (v >> bp) & bm);
    if (c.r() as u32, c.g() as u32, c.b() as u32) != want_ch {
        ctx.violation(format!("{}|channel-positions", l.name), case, || format!("r,g,b = {},{},{} expected {:?}", c.r(), c.g(), c.b(), want_ch));
    }
    // storage and byte serialisations describe the same value
    let st: u32 = c.into_storage().into();
    if st != raw2_v {
        ctx.violation(format!("{}|into_storage", l.name), case, || format!("into_storage = {:#x}, raw = {:#x}", st, raw2_v));
    }
    let (be, le, ne) = (c.to_be_bytes(), c.to_le_bytes(), c.to_ne_bytes());
    if be.as_ref() != bytes_be(raw2_v, l.bpp).as_slice() || le.as_ref() != bytes_le(raw2_v, l.bpp).as_slice() {
        ctx.violation(format!("{}|to_bytes", l.name), case, || format!("be {:?} le {:?} for value {:#x}", be.as_ref(), le.as_ref(), raw2_v));
    }
    let want_ne = if cfg!(target_endian = "little") { le.as_ref() } else { be.as_ref() };
    if ne.as_ref() != want_ne {
        ctx.violation(format!("{}|to_ne_bytes", l.name), case, || format!("ne {:?}", ne.as_ref()));
    }
    // the raw value's own serialisation agrees as well
    if raw2.to_be_bytes().as_ref() != be.as_ref() || raw2.to_le_bytes().as_ref() != le.as_ref() {
        ctx.violation(format!("{}|raw-to_bytes", l.name), case, || "raw and colour serialise differently".to_string());
    }
}

fn check_rgb_new<T>(ctx: &mut Ctx, l: &Layout, r: u8, g: u8, b: u8, mk: fn(u8, u8, u8) -> T)
where
    T: RgbColor + core::fmt::Debug,
    <T::Raw as RawData>::Storage: Into<u32> + Copy,
{
    ctx.eval();
    let c = mk(r, g, b);
    let (rm, gm, bm) = l.max();
    let want = (r as u32 & rm, g as u32 & gm, b as u32 & bm);
    if (c.r() as u32, c.g() as u32, c.b() as u32) != want {
        ctx.violation(
            format!("{}|new-keeps-channels", l.name),
            || format!("{}::new({},{},{})", l.name, r, g, b),
            || format!("r,g,b = {},{},{} expected {:?}", c.r(), c.g(), c.b(), want),
        );
    }
    let raw: T::Raw = c.into();
    let v: u32 = raw.into_inner().into();
    let (rp, gp, bp) = l.pos();
    let want_v = (want.0 << rp) | (want.1 << gp) | (want.2 << bp);
    if v != want_v {
        ctx.violation(
            format!("{}|new-layout", l.name),
            || format!("{}::new({},{},{})", l.name, r, g, b),
            || format!("raw = {:#x} expected {:#x}", v, want_v),
        );
    }
}

fn rgb_consts<T>(ctx: &mut Ctx, l: &Layout)
where
    T: RgbColor + core::fmt::Debug,
{
    ctx.eval();
    let (rm, gm, bm) = l.max();
    let ok = (T::MAX_R as u32, T::MAX_G as u32, T::MAX_B as u32) == (rm, gm, bm)
        && ch(T::BLACK) == (0, 0, 0)
        && ch(T::WHITE) == (rm, gm, bm)
        && ch(T::RED) == (rm, 0, 0)
        && ch(T::GREEN) == (0, gm, 0)
        && ch(T::BLUE) == (0, 0, bm)
        && ch(T::YELLOW) == (rm, gm, 0)
        && ch(T::MAGENTA) == (rm, 0, bm)
        && ch(T::CYAN) == (0, gm, bm);
    if !ok {
        ctx.violation(format!("{}|constants", l.name), || l.name.to_string(), || "MAX_* or colour constants disagree with the channel widths".to_string());
    }
    fn ch<T: RgbColor>(c: T) -> (u32, u32, u32) {
        (c.r() as u32, c.g() as u32, c.b() as u32)
    }
}

const CHUNK: u64 = 4096;

fn sweep_rgb<T>(run: &Run, l: Layout, mk: fn(u8, u8, u8) -> T)
where
    T: RgbColor + core::fmt::Debug + IntoStorage + ToBytes + Send + Sync,
    <T::Raw as RawData>::Storage: Into<u32> + Copy,
    <T as IntoStorage>::Storage: Into<u32>,
    <T as ToBytes>::Bytes: AsRef<[u8]>,
    <T::Raw as ToBytes>::Bytes: AsRef<[u8]>,
    T::Raw: Copy,
{
    let full = !run.quick();
    // --- raw values
    let space: u64 = 1u64 << l.bpp.min(24);
    let exhaustive_raw = l.bpp <= 16 || full;
    let gen_raw: &'static str = Box::leak(format!("{}-raw", l.name).into_boxed_str());
    if exhaustive_raw {
        run.generate(gen_raw, space / CHUNK.min(space), true, 0.3, |ctx, idx, rng| {
            let chunk = CHUNK.min(space);
            if ctx.wants_sample() {
                let v = (idx * chunk) as u32;
                let c = T::from(<T::Raw as RawData>::from_u32(v));
                ctx.sample(|| jobj! {"type" => l.name, "raw" => format!("{:#x}", v), "colour" => format!("{:?}", c)});
            }
            let mut nt = 0;
            for v in idx * chunk..(idx + 1) * chunk {
                let v = v as u32;
                check_rgb_raw::<T>(ctx, &l, v);
                if v != 0 && v != l.bpp_mask() {
                    nt += 1;
                }
                // raw storage values with unused high bits set (storage wider than the value space)
                if l.bpp < 32 && (v & 0x3f) == 0x15 {
                    let hi = rng.next_u32() & !l.bpp_mask();
                    check_rgb_raw::<T>(ctx, &l, v | hi);
                    ctx.count("raw_values_with_high_storage_bits", 1);
                }
            }
            ctx.run.add_nontrivial_counted(nt);
            ctx.count("raw_values_enumerated", chunk);
        });
    } else {
        // quick tier for 24-bit storage: per-channel exhaustive (others at 5 settings) + random
        let n = 2_000_000u64 / CHUNK;
        run.generate(gen_raw, n, false, 0.3, |ctx, _idx, rng| {
            for _ in 0..CHUNK {
                let v = rng.next_u32();
                check_rgb_raw::<T>(ctx, &l, v & 0xFF_FFFF);
                ctx.nontrivial(mix(v as u64 & 0xFF_FFFF, l.bpp as u64 + l.bgr as u64 * 64 + l.rb as u64 * 128));
            }
            ctx.count("raw_values_random", CHUNK);
        });
        let gen_ch: &'static str = Box::leak(format!("{}-raw-per-channel", l.name).into_boxed_str());
        run.generate(gen_ch, 3 * 256, true, 0.3, |ctx, idx, _| {
            let (ch, val) = (idx / 256, (idx % 256) as u32);
            for other in [0u32, 0xFF_FFFF, 0xAA_AAAA, 0x55_5555, 0x01_0101] {
                let sh = ch * 8;
                let v = (other & !(0xFF << sh)) | (val << sh);
                check_rgb_raw::<T>(ctx, &l, v);
            }
        });
    }
    // --- new(r, g, b)
    let gen_new: &'static str = Box::leak(format!("{}-new", l.name).into_boxed_str());
    if full {
        run.generate(gen_new, 65536, true, 0.3, |ctx, idx, _| {
            let (r, g) = ((idx >> 8) as u8, idx as u8);
            for b in 0..=255u8 {
                check_rgb_new::<T>(ctx, &l, r, g, b, mk);
            }
            ctx.run.add_nontrivial_counted(256);
        });
    } else {
        run.generate(gen_new, 3 * 256 + 512, false, 0.3, |ctx, idx, rng| {
            if idx < 768 {
                let (ch, val) = (idx / 256, (idx % 256) as u8);
                for other in [0u8, 255, 0xAA, 0x55, 1, 0x80] {
                    let mut t = [other; 3];
                    t[ch as usize] = val;
                    check_rgb_new::<T>(ctx, &l, t[0], t[1], t[2], mk);
                    ctx.nontrivial(mix(((t[0] as u64) << 16) | ((t[1] as u64) << 8) | t[2] as u64, 0x77 + l.bpp as u64 + l.bgr as u64 * 64 + l.rb as u64 * 128));
                }
            } else {
                for _ in 0..1024 {
                    let v = rng.next_u32();
                    check_rgb_new::<T>(ctx, &l, v as u8, (v >> 8) as u8, (v >> 16) as u8, mk);
                }
            }
        });
    }
    run.section(Box::leak(format!("{}-constants", l.name).into_boxed_str()), |ctx| rgb_consts::<T>(ctx, &l));
}

fn sweep_gray<T>(run: &Run, name: &'static str, bits: u32, mk: fn(u8) -> T, white: T, black: T)
where
    T: GrayColor + core::fmt::Debug + IntoStorage + ToBytes,
    <T::Raw as RawData>::Storage: Into<u32> + Copy,
    <T as IntoStorage>::Storage: Into<u32>,
    <T as ToBytes>::Bytes: AsRef<[u8]>,
    <T::Raw as ToBytes>::Bytes: AsRef<[u8]>,
    T::Raw: Copy,
{
    run.section(Box::leak(format!("{}-all", name).into_boxed_str()), |ctx| {
        let mask = (1u32 << bits) - 1;
        for v in 0..=255u32 {
            ctx.eval();
            let case = || format!("{} value {}", name, v);
            let c = mk(v as u8);
            if c.luma() as u32 != v & mask {
                ctx.violation(format!("{}|new-keeps-luma", name), case, || format!("luma() = {}", c.luma()));
            }
            let raw = <T::Raw as RawData>::from_u32(v | 0xABCD_EF00);
            let raw_v: u32 = raw.into_inner().into();
            if raw_v != v & mask {
                ctx.violation(format!("{}|raw-new-mask", name), case, || format!("raw = {:#x}", raw_v));
            }
            let c2 = T::from(raw);
            let raw2: T::Raw = c2.into();
            let raw2_v: u32 = raw2.into_inner().into();
            if c2 != c || raw2_v != v & mask || T::from(raw2) != c2 {
                ctx.violation(format!("{}|raw-roundtrip", name), case, || format!("{:?} vs {:?}, raw {:#x}", c, c2, raw2_v));
            }
            let st: u32 = c.into_storage().into();
            if st != v & mask || c.to_be_bytes().as_ref() != [(v & mask) as u8] || c.to_le_bytes().as_ref() != [(v & mask) as u8] || c.to_ne_bytes().as_ref() != [(v & mask) as u8] {
                ctx.violation(format!("{}|storage-bytes", name), case, || format!("into_storage {:#x}", st));
            }
            if v != 0 && v < mask {
                ctx.nontrivial(mix(v as u64, bits as u64 * 1000 + 5));
            }
            if v < 2 {
                ctx.sample(|| jobj! {"type" => name, "luma_in" => v, "colour" => format!("{:?}", c)});
            }
        }
        ctx.eval();
        if white.luma() as u32 != mask || black.luma() != 0 {
            ctx.violation(format!("{}|constants", name), || name.to_string(), || "WHITE/BLACK".to_string());
        }
    });
}

fn raw_types(run: &Run) {
    fn one<R: RawData>(ctx: &mut Ctx, name: &'static str, v: u32)
    where
        R::Storage: Into<u32> + Copy,
    {
        ctx.eval();
        let bpp = R::BITS_PER_PIXEL as u32;
        let mask = if bpp == 32 { u32::MAX } else { (1 << bpp) - 1 };
        let got: u32 = R::from_u32(v).into_inner().into();
        let storage_bits = (core::mem::size_of::<R::Storage>() * 8) as u32;
        let trunc = if storage_bits == 32 { v } else { v & ((1 << storage_bits) - 1) };
        if got != trunc & mask {
            ctx.violation(format!("{}|from_u32-mask", name), || format!("{}::from_u32({:#x})", name, v), || format!("= {:#x}", got));
        }
        let m: u32 = R::MASK.into();
        if m != mask {
            ctx.violation(format!("{}|MASK", name), || name.to_string(), || format!("MASK = {:#x}", m));
        }
    }
    run.generate("raw-types-mask", 4096, false, 0.2, |ctx, idx, rng| {
        for k in 0..64u32 {
            let v = if idx < 1024 { (idx as u32) * 64 + k } else { rng.next_u32() };
            one::<RawU1>(ctx, "RawU1", v);
            one::<RawU2>(ctx, "RawU2", v);
            one::<RawU4>(ctx, "RawU4", v);
            one::<RawU8>(ctx, "RawU8", v);
            one::<RawU16>(ctx, "RawU16", v);
            one::<RawU24>(ctx, "RawU24", v);
            one::<RawU32>(ctx, "RawU32", v);
            ctx.nontrivial(mix(v as u64, 0x99));
        }
    });
}

/// Raw values as a display driver or image obtains them: `RawData::load` from packed bytes in both
/// data orders. Whatever the neighbouring pixels and padding bits hold, the loaded value fits in
/// BITS_PER_PIXEL bits and the colour made of it is the colour of its low bits (same value under
/// `==`, `into_storage`, raw again).
fn loaded_raw_values(run: &Run) {
    fn one<C, O>(ctx: &mut Ctx, name: &'static str, buf: &[u8], used_mask: u32)
    where
        C: PixelColor + From<<C as PixelColor>::Raw> + Into<<C as PixelColor>::Raw> + IntoStorage + core::fmt::Debug,
        <C::Raw as RawData>::Storage: Into<u32> + Copy,
        <C as IntoStorage>::Storage: Into<u32>,
        C::Raw: Copy,
        O: DataOrder,
    {
        let bpp = <C::Raw as RawData>::BITS_PER_PIXEL;
        let mask = if bpp == 32 { u32::MAX } else { (1u32 << bpp) - 1 };
        let order = if O::IS_ALTERNATE_ORDER { "BigEndianLsb0" } else { "LittleEndianMsb0" };
        for i in 0..(buf.len() * 8 / bpp) {
            ctx.eval();
            let case = || format!("{}: {}::load::<{}>({:02x?}, {})", name, core::any::type_name::<C::Raw>().rsplit("::").next().unwrap_or(""), order, buf, i);
            let Some(raw) = <C::Raw as RawData>::load::<O>(buf, i) else {
                ctx.violation(format!("{}|loaded-raw|{}|none-inside-buffer", name, order), case, String::new);
                continue;
            };
            let v: u32 = raw.into_inner().into();
            if v & !mask != 0 {
                ctx.violation(format!("{}|loaded-raw|{}|does-not-fit-bits-per-pixel", name, order), case, || format!("into_inner() = {:#x}", v));
                continue;
            }
            let c = C::from(raw);
            let clean = C::from(<C::Raw as RawData>::from_u32(v & used_mask));
            let st: u32 = c.into_storage().into();
            let back: C::Raw = c.into();
            let back_v: u32 = back.into_inner().into();
            if c != clean || st != v & used_mask || back_v != v & used_mask || C::from(back) != c {
                ctx.violation(format!("{}|loaded-raw|{}|colour-differs-from-colour-of-used-bits", name, order), case, || {
                    format!("raw {:#x}: colour {:?} storage {:#x} raw again {:#x}; colour of the used bits {:?}", v, c, st, back_v, clean)
                });
            }
            if v & used_mask != 0 && v & used_mask != used_mask {
                ctx.nontrivial(mix(v as u64, bpp as u64 * 7 + O::IS_ALTERNATE_ORDER as u64));
            }
        }
    }
    let cases: u64 = run.tier(4096, 65536);
    run.generate("raw-values-obtained-by-load", cases, false, 0.2, |ctx, idx, rng| {
        // every two-byte buffer in the thorough tier (index = the buffer), a stride of them plus random ones in the quick tier
        let two = if cases == 65536 { idx as u16 } else if idx < 2048 { (idx as u16).wrapping_mul(32).wrapping_add((idx >> 6) as u16) } else { rng.next_u32() as u16 };
        let b2 = two.to_be_bytes();
        macro_rules! both {
            ($c:ty, $name:expr, $buf:expr, $used:expr) => {
                one::<$c, LittleEndianMsb0>(ctx, $name, $buf, $used);
                one::<$c, BigEndianLsb0>(ctx, $name, $buf, $used);
            };
        }
        both!(BinaryColor, "BinaryColor", &b2, 1);
        both!(Gray2, "Gray2", &b2, 3);
        both!(Gray4, "Gray4", &b2, 15);
        both!(Gray8, "Gray8", &b2, 0xFF);
        both!(Rgb332, "Rgb332", &b2, 0xFF);
        both!(Rgb444, "Rgb444", &b2, 0x0FFF);
        both!(Rgb555, "Rgb555", &b2, 0x7FFF);
        both!(Bgr555, "Bgr555", &b2, 0x7FFF);
        both!(Rgb565, "Rgb565", &b2, 0xFFFF);
        both!(Bgr565, "Bgr565", &b2, 0xFFFF);
        let r = rng.next_u32().to_le_bytes();
        let b6 = [b2[0], b2[1], r[0], r[1], r[2], r[3] | 0xFC];
        both!(Rgb666, "Rgb666", &b6, 0x3FFFF);
        both!(Bgr666, "Bgr666", &b6, 0x3FFFF);
        both!(Rgb888, "Rgb888", &b6, 0xFF_FFFF);
        both!(Bgr888, "Bgr888", &b6, 0xFF_FFFF);
    });
}

fn main() {
    main_with("c12", "exploration", |run| {
        run.set_rule(
            "Per colour type: every raw value (<= 16-bit types always; 24-bit storage: every value in the thorough tier, per-channel exhaustive + 2e6 random in the quick tier), \
             raw storage values with unused high bits set, every new(r,g,b)/new(luma) argument (thorough: all 2^24 triples). A value is non-trivial when it is neither all-zero nor all-ones; \
             distinct = distinct values per type (enumerated values are distinct by construction and counted, random ones are de-duplicated by hash).",
        );
        run.assume("documented layout model: RGB types red in the most significant used bits, BGR types blue; to_be/le_bytes = big/little-endian bytes of the raw value in BITS_PER_PIXEL/8 bytes");
        macro_rules! rgb {
            ($t:ident, $bpp:expr, $r:expr, $g:expr, $b:expr, $bgr:expr) => {
                sweep_rgb::<$t>(run, Layout { name: stringify!($t), bpp: $bpp, rb: $r, gb: $g, bb: $b, bgr: $bgr }, $t::new);
            };
        }
        rgb!(Rgb332, 8, 3, 3, 2, false);
        rgb!(Rgb444, 16, 4, 4, 4, false);
        rgb!(Rgb555, 16, 5, 5, 5, false);
        rgb!(Bgr555, 16, 5, 5, 5, true);
        rgb!(Rgb565, 16, 5, 6, 5, false);
        rgb!(Bgr565, 16, 5, 6, 5, true);
        rgb!(Rgb666, 24, 6, 6, 6, false);
        rgb!(Bgr666, 24, 6, 6, 6, true);
        rgb!(Rgb888, 24, 8, 8, 8, false);
        rgb!(Bgr888, 24, 8, 8, 8, true);
        sweep_gray::<Gray2>(run, "Gray2", 2, Gray2::new, Gray2::WHITE, Gray2::BLACK);
        sweep_gray::<Gray4>(run, "Gray4", 4, Gray4::new, Gray4::WHITE, Gray4::BLACK);
        sweep_gray::<Gray8>(run, "Gray8", 8, Gray8::new, Gray8::WHITE, Gray8::BLACK);
        run.section("BinaryColor-all", |ctx| {
            for v in 0..=255u32 {
                ctx.eval();
                let raw = RawU1::from_u32(v);
                let c = BinaryColor::from(raw);
                let want = if v & 1 == 1 { BinaryColor::On } else { BinaryColor::Off };
                let back: RawU1 = c.into();
                if c != want || back.into_inner() != (v & 1) as u8 || BinaryColor::from(back) != c {
                    ctx.violation("BinaryColor|raw-roundtrip", || format!("raw {}", v), || format!("{:?} back {:?}", c, back));
                }
                if c.into_storage() != (v & 1) as u8 || c.to_be_bytes() != [(v & 1) as u8] || c.to_le_bytes() != [(v & 1) as u8] {
                    ctx.violation("BinaryColor|storage-bytes", || format!("raw {}", v), || String::new());
                }
                ctx.nontrivial(mix(v as u64 & 1, 0xB1));
            }
            ctx.eval();
            if BinaryColor::On.is_off() || BinaryColor::Off.is_on() || BinaryColor::On.invert() != BinaryColor::Off || BinaryColor::from(true) != BinaryColor::On {
                ctx.violation("BinaryColor|predicates", || "On/Off".into(), || String::new());
            }
        });
        raw_types(run);
        loaded_raw_values(run);
    })
}
