//! C04 — target errors stop drawing immediately and are returned unchanged.
//! Fault enumeration at the DrawTarget boundary + offline check of the recorded call logs.
use egmon::{
    adapters::{stack_text, with_stack, Ad, TargetUser},
    jobj, main_with,
    rng::mix,
    target::{rect, Fault, IterTarget, Kind, Log, NativeTarget, Recorder},
    zoo::{self, Desc, Dr, GenCfg, Visitor, ZCol},
    Ctx, Rng, Run,
};
use embedded_graphics::{draw_target::DrawTargetExt, pixelcolor::*, prelude::*, primitives::Rectangle};

struct DrawUser<'d, C: ZCol, D: Dr<C>> {
    d: &'d D,
    result: Option<Result<Option<Point>, Fault>>,
    _c: core::marker::PhantomData<C>,
}
impl<'d, C: ZCol, D: Dr<C>> TargetUser<C, Fault> for DrawUser<'d, C, D> {
    fn use_target<T: DrawTarget<Color = C, Error = Fault>>(&mut self, t: &mut T) {
        self.result = Some(self.d.draw_on(t));
    }
}

/// one run of `d` through `stack` over a fresh parent; returns (result, parent log)
fn run_once<C: ZCol, D: Dr<C>, P: Recorder + DrawTarget<Color = C, Error = Fault>>(d: &D, stack: &[Ad], bx: Rectangle, fault: Option<Fault>, budget: u64) -> (Result<Option<Point>, Fault>, Log) {
    let mut parent = P::with_box(bx);
    parent.log_mut().fail_at = fault;
    parent.log_mut().budget = budget;
    let mut u = DrawUser { d, result: None, _c: core::marker::PhantomData };
    with_stack(stack, &mut parent, &mut u);
    (u.result.unwrap(), parent.log().clone())
}

struct V<'c, 'r, 'x> {
    ctx: &'c mut Ctx<'r>,
    rng: &'x mut Rng,
    native: bool,
    convert: bool,
}

fn gen_stack(rng: &mut Rng, bb: &Rectangle) -> Vec<Ad> {
    let depth = match rng.below(8) {
        0 | 1 => 0,
        2..=4 => 1,
        5 | 6 => 2,
        _ => 3,
    };
    let mut s = Vec::new();
    for _ in 0..depth {
        // areas around the drawable so that parts are cut off; offsets small so it stays visible
        let a = rect(
            bb.top_left.x + rng.i32r(-6, bb.size.width as i32 / 2 + 2),
            bb.top_left.y + rng.i32r(-6, bb.size.height as i32 / 2 + 2),
            rng.u32r(0, bb.size.width + 8),
            rng.u32r(0, bb.size.height + 8),
        );
        s.push(match rng.below(3) {
            0 => Ad::Tr(Point::new(rng.i32r(-5, 5), rng.i32r(-5, 5))),
            1 => Ad::Cr(a),
            _ => Ad::Cl(a),
        });
    }
    s
}

fn faults_for(n: u64, rng: &mut Rng) -> Vec<u64> {
    if n <= 48 {
        (1..=n).collect()
    } else {
        let mut v: Vec<u64> = (1..=16).collect();
        v.extend(n - 15..=n);
        for _ in 0..16 {
            v.push(rng.range(17, (n - 16) as i64) as u64);
        }
        v.sort();
        v.dedup();
        v
    }
}

fn enumerate<C: ZCol, D: Dr<C>, P: Recorder + DrawTarget<Color = C, Error = Fault>>(ctx: &mut Ctx, rng: &mut Rng, d: &D, desc: &Desc, stack: &[Ad], conv: &str) {
    let kind = desc.kind();
    let bb = d.bbox();
    // parent box: generous, but finite so that clear()/clipping behave normally
    let bx = rect(bb.top_left.x.saturating_sub(40), bb.top_left.y.saturating_sub(40), bb.size.width + 80, bb.size.height + 80);
    let budget = (bx.size.width as u64) * (bx.size.height as u64) * 16 + 4096 + desc.overlap_allowance();
    let target_kind = if P::NATIVE { "native" } else { "draw_iter-only" };
    let case = |k: u64| format!("{} via {}{} on {} parent box {:?}, failing call {}", desc.text(), stack_text(stack), conv, target_kind, egmon::target::rt(&bx), k);
    ctx.eval();
    let (r0, l0) = run_once::<C, D, P>(d, stack, bx, None, budget);
    if l0.over_budget {
        ctx.violation(format!("{}|draw-exceeds-step-budget", kind), || case(0), || format!("more than {} items", budget));
        return;
    }
    if r0.is_err() {
        ctx.violation(format!("{}|error-without-fault", kind), || case(0), || format!("fault-free run returned {:?}", r0));
        return;
    }
    let n = l0.calls;
    let shape0 = l0.shape();
    ctx.count("fault_free_runs", 1);
    ctx.max("calls_in_one_run", n);
    ctx.distinct("call_log_shapes", l0.shape_hash());
    for k in 0..4 {
        ctx.count(["parent_draw_iter_calls", "parent_fill_contiguous_calls", "parent_fill_solid_calls", "parent_clear_calls"][k], l0.calls_by_kind[k]);
    }
    if n == 0 {
        return;
    }
    for k in faults_for(n, rng) {
        ctx.eval();
        ctx.count("faults_injected", 1);
        let fault = Fault { k, nonce: mix(rng.next_u64(), k) };
        let (r, l) = run_once::<C, D, P>(d, stack, bx, Some(fault), budget);
        if !l.failed {
            ctx.violation(format!("{}|fault-not-reached-nondeterministic-call-sequence", kind), || case(k), || format!("fault-free run made {} calls, faulty run only {}", n, l.calls));
            continue;
        }
        match r {
            Err(e) if e == fault => {}
            Err(e) => ctx.violation(format!("{}|different-error-returned", kind), || case(k), || format!("target failed with {:?}, draw returned {:?}", fault, e)),
            Ok(_) => ctx.violation(format!("{}|error-swallowed", kind), || case(k), || format!("target failed with {:?}, draw returned Ok", fault)),
        }
        if l.calls_after_fault > 0 {
            let next = l.events.iter().find(|e| e.after_fault).map(|e| e.kind);
            ctx.violation(format!("{}|calls-after-error|{:?}", kind, next.unwrap_or(Kind::DrawIter)), || case(k), || format!("{} further call(s) on the target after call {} failed; first is {:?}", l.calls_after_fault, k, next));
        }
        // the calls before the failure are those of the fault-free run
        let before: Vec<_> = l.events.iter().filter(|e| !e.after_fault).map(|e| (e.kind, e.area, e.n, e.hash)).collect();
        if before.len() as u64 != k - 1 || before[..] != shape0[..(k - 1) as usize] {
            let first = before.iter().zip(shape0.iter()).position(|(a, b)| a != b);
            ctx.violation(format!("{}|calls-before-error-differ-from-fault-free-run", kind), || case(k), || format!("{} calls logged before the failure, expected the first {} of the fault-free log; first difference at call {:?}", before.len(), k - 1, first.map(|i| i + 1)));
        }
    }
    if n >= 2 {
        ctx.nontrivial(desc.hash() ^ egmon::rng::hash_str(&stack_text(stack)) ^ P::NATIVE as u64 ^ egmon::rng::hash_str(conv));
    }
    if ctx.wants_sample() {
        ctx.sample(|| jobj! {"drawable" => desc.text(), "adapters" => format!("{}{}", stack_text(stack), conv), "parent" => target_kind, "calls_fault_free" => n, "log_shape" => format!("{:?}", l0.events.iter().map(|e| e.kind).take(12).collect::<Vec<_>>())});
    }
}

/// drawable of colour BinaryColor drawn through color_converted onto an Rgb565 parent
struct ConvUser<'d, D: Dr<BinaryColor>> {
    d: &'d D,
    result: Option<Result<Option<Point>, Fault>>,
}
impl<'d, D: Dr<BinaryColor>> TargetUser<Rgb565, Fault> for ConvUser<'d, D> {
    fn use_target<T: DrawTarget<Color = Rgb565, Error = Fault>>(&mut self, t: &mut T) {
        let mut c = t.color_converted::<BinaryColor>();
        self.result = Some(self.d.draw_on(&mut c));
    }
}

impl<'c, 'r, 'x, C: ZCol> Visitor<C> for V<'c, 'r, 'x> {
    type Out = ();
    fn visit<D: Dr<C>>(&mut self, d: &D, desc: &Desc) {
        let bb = d.bbox();
        let stack = gen_stack(self.rng, &bb);
        let _ = self.convert;
        if self.native {
            enumerate::<C, D, NativeTarget<C>>(self.ctx, self.rng, d, desc, &stack, "");
        } else {
            enumerate::<C, D, IterTarget<C>>(self.ctx, self.rng, d, desc, &stack, "");
        }
    }
}

/// colour-converted variant: same enumeration with the converting adapter outermost
struct VC<'c, 'r, 'x> {
    ctx: &'c mut Ctx<'r>,
    rng: &'x mut Rng,
}
impl<'c, 'r, 'x> Visitor<BinaryColor> for VC<'c, 'r, 'x> {
    type Out = ();
    fn visit<D: Dr<BinaryColor>>(&mut self, d: &D, desc: &Desc) {
        let ctx = &mut *self.ctx;
        let rng = &mut *self.rng;
        let kind = desc.kind();
        let bb = d.bbox();
        let stack = gen_stack(rng, &bb);
        let bx = rect(bb.top_left.x.saturating_sub(40), bb.top_left.y.saturating_sub(40), bb.size.width + 80, bb.size.height + 80);
        let case = |k: u64| format!("{} via {}.color_converted on native Rgb565 parent box {:?}, failing call {}", desc.text(), stack_text(&stack), egmon::target::rt(&bx), k);
        let run = |fault: Option<Fault>| {
            let mut parent = NativeTarget::<Rgb565>::new(bx);
            parent.log.fail_at = fault;
            let mut u = ConvUser { d, result: None };
            with_stack(&stack, &mut parent, &mut u);
            (u.result.unwrap(), parent.log)
        };
        ctx.eval();
        let (r0, l0) = run(None);
        if r0.is_err() {
            ctx.violation(format!("{}|error-without-fault", kind), || case(0), || format!("{:?}", r0));
            return;
        }
        let n = l0.calls;
        let shape0 = l0.shape();
        ctx.count("fault_free_runs", 1);
        for k in faults_for(n, rng) {
            ctx.eval();
            ctx.count("faults_injected", 1);
            let fault = Fault { k, nonce: mix(rng.next_u64(), k) };
            let (r, l) = run(Some(fault));
            if r != Err(fault) {
                ctx.violation(format!("{}|color_converted|error-not-returned-unchanged", kind), || case(k), || format!("target failed with {:?}, draw returned {:?}", fault, r));
            }
            if l.calls_after_fault > 0 {
                ctx.violation(format!("{}|color_converted|calls-after-error", kind), || case(k), || format!("{} further calls", l.calls_after_fault));
            }
            let before: Vec<_> = l.events.iter().filter(|e| !e.after_fault).map(|e| (e.kind, e.area, e.n, e.hash)).collect();
            if before.len() as u64 != k - 1 || before[..] != shape0[..(k - 1) as usize] {
                ctx.violation(format!("{}|color_converted|calls-before-error-differ", kind), || case(k), || format!("{} calls logged before the failure", before.len()));
            }
        }
        if n >= 2 {
            ctx.nontrivial(desc.hash() ^ 0xC0 ^ egmon::rng::hash_str(&stack_text(&stack)));
        }
    }
}

fn main() {
    main_with("c04", "fault_enumeration", |run: &Run| {
        run.set_rule(
            "For each (drawable, adapter stack, parent kind): the fault-free run is recorded (n calls on the underlying target), then for every k in 1..=n (all k when n <= 48, otherwise the first 16, the last 16 and 16 random k) the run in which call k fails with a unique error value. \
             Drawables: every kind of the zoo (styled primitives incl. stroke+fill, polylines, images/sub-images, multi-line decorated text in built-in and custom fonts); stacks: direct and random nestings of translated/cropped/clipped up to depth 3, plus color_converted; parents with default and with native fill methods. \
             Non-trivial = the fault-free run makes >= 2 target calls; distinct = distinct (drawable, stack, parent kind).",
        );
        run.assume("a failing target call returns at entry without side effect (fault injection at the boundary)");
        let n = run.tier(300_000u64, 20_000_000u64);
        run.generate("zoo-native-parent", n, false, 0.3, |ctx, idx, rng| {
            let mut r2 = rng.clone();
            if idx % 2 == 0 {
                let d = if rng.chance(1, 10) { zoo::gen_dotted_rect(rng) } else { zoo::gen_any::<Rgb565>(rng, &GenCfg::SMALL_DOTTED) };
                d.visit::<Rgb565, _>(&mut V { ctx, rng: &mut r2, native: true, convert: false });
            } else {
                let d = if rng.chance(1, 10) { zoo::gen_dotted_rect(rng) } else { zoo::gen_any::<BinaryColor>(rng, &GenCfg::SMALL_DOTTED) };
                d.visit::<BinaryColor, _>(&mut V { ctx, rng: &mut r2, native: true, convert: false });
            }
        });
        run.generate("zoo-default-fill-parent", n, false, 0.3, |ctx, _idx, rng| {
            let mut r2 = rng.clone();
            let d = if rng.chance(1, 10) { zoo::gen_dotted_rect(rng) } else { zoo::gen_any::<Rgb565>(rng, &GenCfg::SMALL_DOTTED) };
            d.visit::<Rgb565, _>(&mut V { ctx, rng: &mut r2, native: false, convert: false });
        });
        // dotted borders with more than a hundred dots per side (sides of 1030..2700 px): hundreds of
        // target calls per drawable (seeded `C04-13`: dot positions cached for the first 128 dots, the
        // error of the cached phase only returned after the remaining dots were drawn)
        let nd = run.tier(32u64, 4000u64);
        run.generate("long-dotted-rectangles", nd, false, 0.15, |ctx, idx, rng| {
            let mut r2 = rng.clone();
            let long = rng.u32r(1030, 2700);
            let short = rng.u32r(8, 40);
            let size = if idx % 2 == 0 { (long, short) } else { (short, long) };
            let d = Desc::Styled(
                zoo::Prim::Rect { tl: (rng.i32r(-20, 30), rng.i32r(-20, 30)), size },
                zoo::StyleD { fill: if rng.chance(1, 4) { Some(1) } else { None }, stroke: Some(rng.u32r(4, 6)), width: rng.u32r(3, 10), align: rng.below(3) as u8, dotted: true },
            );
            d.visit::<Rgb565, _>(&mut V { ctx, rng: &mut r2, native: idx % 4 < 2, convert: false });
        });
        let nt = run.tier(100_000u64, 8_000_000u64);
        run.generate("decorated-multiline-text", nt, false, 0.3, |ctx, idx, rng| {
            let mut r2 = rng.clone();
            let mut d = zoo::gen_text(rng, (1, 3));
            if let Desc::Text(t) = &mut d {
                t.text_color = Some(1);
                t.bg = if idx % 2 == 0 { Some(4) } else { None };
                t.underline = zoo::DecoD::TextColor;
                t.strike = zoo::DecoD::Custom(7);
                if let zoo::FontD::Builtin(_) = t.font {
                    t.text = ["ab\ncd", "x\n\ny z", "Hello\r\nWorld"][(idx % 3) as usize].to_string();
                }
            }
            d.visit::<Rgb565, _>(&mut V { ctx, rng: &mut r2, native: idx % 4 < 2, convert: false });
        });
        let nc = run.tier(150_000u64, 10_000_000u64);
        run.generate("color-converted", nc, false, 0.3, |ctx, _idx, rng| {
            let mut r2 = rng.clone();
            let d = if rng.chance(1, 10) { zoo::gen_dotted_rect(rng) } else { zoo::gen_any::<BinaryColor>(rng, &GenCfg::SMALL_DOTTED) };
            d.visit::<BinaryColor, _>(&mut VC { ctx, rng: &mut r2 });
        });
    })
}
