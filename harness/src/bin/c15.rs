//! C15 — text layout: positions, alignment, baselines and line breaks are consistent.
//! Relational oracles on recorded pixel maps and returned positions.
use egmon::{
    fonts::FONTS,
    jobj, main_with,
    target::{unbounded_box, IterTarget, PixMap},
    zoo::{self, DecoD, FontD, LhD, TextD},
    Ctx, Rng, Run,
};
use embedded_graphics::{
    mono_font::MonoFont,
    pixelcolor::*,
    prelude::*,
    text::{renderer::TextRenderer, Baseline, LineHeight},
};

type C = Rgb565;

fn draw(t: &TextD, font: &MonoFont<'_>) -> (PixMap, Point) {
    t.with_text::<C, _>(font, |text| {
        let mut tg = IterTarget::<C>::new(unbounded_box());
        let next = text.draw(&mut tg).unwrap();
        (tg.log.map, next)
    })
}

/// The same text with a character style whose public fields were assigned one by one on a style
/// that was constructed for a different font and colour (the fields of `MonoTextStyle` are public;
/// seeded `C15-17`: a character advance cached by the builder goes stale when `font` is assigned).
fn draw_field_assigned(t: &TextD, font: &MonoFont<'_>) -> (PixMap, Point, embedded_graphics::primitives::Rectangle) {
    use egmon::target::Col;
    use embedded_graphics::mono_font::{ascii, MonoTextStyle};
    t.with_text::<C, _>(font, |text| {
        let other: &MonoFont<'static> = if font.character_size.width == 10 { &ascii::FONT_4X6 } else { &ascii::FONT_10X20 };
        let mut st = MonoTextStyle::new(other, C::nth(6));
        st.font = text.character_style.font;
        st.text_color = text.character_style.text_color;
        st.background_color = text.character_style.background_color;
        st.underline_color = text.character_style.underline_color;
        st.strikethrough_color = text.character_style.strikethrough_color;
        let mut t2 = text.clone();
        t2.character_style = st;
        let mut tg = IterTarget::<C>::new(unbounded_box());
        let next = t2.draw(&mut tg).unwrap();
        (tg.log.map, next, t2.bounding_box())
    })
}

/// The same text with a character style made by a builder on which the font is set LAST, after
/// colours and decorations (seeded `C14-18`: `MonoTextStyleBuilder::font()` copying the underline
/// setting into the strikethrough setting - invisible when `font()` is the first builder call).
fn draw_font_set_last(t: &TextD, font: &MonoFont<'_>) -> (PixMap, Point, embedded_graphics::primitives::Rectangle) {
    use embedded_graphics::{mono_font::MonoTextStyleBuilder, text::DecorationColor};
    t.with_text::<C, _>(font, |text| {
        let cs = text.character_style;
        let mut b = MonoTextStyleBuilder::<C>::new();
        if let Some(c) = cs.text_color {
            b = b.text_color(c);
        }
        if let Some(c) = cs.background_color {
            b = b.background_color(c);
        }
        b = match cs.underline_color {
            DecorationColor::None => b,
            DecorationColor::TextColor => b.underline(),
            DecorationColor::Custom(c) => b.underline_with_color(c),
        };
        b = match cs.strikethrough_color {
            DecorationColor::None => b,
            DecorationColor::TextColor => b.strikethrough(),
            DecorationColor::Custom(c) => b.strikethrough_with_color(c),
        };
        let mut t2 = text.clone();
        t2.character_style = b.font(cs.font).build();
        let mut tg = IterTarget::<C>::new(unbounded_box());
        let next = t2.draw(&mut tg).unwrap();
        (tg.log.map, next, t2.bounding_box())
    })
}

fn draw_onto(t: &TextD, font: &MonoFont<'_>, tg: &mut IterTarget<C>) -> Point {
    t.with_text::<C, _>(font, |text| text.draw(tg).unwrap())
}

fn desc(t: &TextD) -> String {
    zoo::Desc::Text(t.clone()).text()
}

fn font_class(t: &TextD) -> &'static str {
    match &t.font {
        FontD::Builtin(_) => "built-in-font",
        FontD::Custom(c) if c.spacing > 0 => "custom-font-with-spacing",
        FontD::Custom(_) => "custom-font-no-spacing",
    }
}

fn line_height_px(t: &TextD, font: &MonoFont<'_>) -> i32 {
    match t.lh {
        LhD::Pixels(p) => p as i32,
        LhD::Percent(p) => (font.character_size.height * p / 100) as i32,
    }
}

fn baseline_offset(b: u8, font: &MonoFont<'_>) -> i32 {
    let h = font.character_size.height as i32;
    match b {
        0 => 0,
        1 => (h - 1).max(0),
        2 => (h - 1).max(0) / 2,
        _ => font.baseline as i32,
    }
}

fn check(ctx: &mut Ctx, t: &TextD, font: &MonoFont<'_>, rng: &mut Rng) {
    let fc = font_class(t);
    let spaced = font.character_spacing > 0;
    let (cw, ch) = (font.character_size.width as i32, font.character_size.height as i32);
    let transparent_chars = t.text_color.is_none() && t.bg.is_none();

    // --- (0) layout does not depend on the target: on a bounded target (edges coinciding with or
    // cutting through the text, only the first row/column visible, nothing visible, zero-sized) draw
    // returns the same position as on an unbounded one and paints exactly the visible part
    {
        ctx.eval();
        let (whole, next) = draw(t, font);
        {
            // a style assembled by assigning the public fields renders the same text
            let (m2, n2, bb2) = draw_field_assigned(t, font);
            let bb = t.with_text::<C, _>(font, |text| text.bounding_box());
            if !m2.same(&whole) || n2 != next || bb2 != bb {
                ctx.violation(format!("field-assigned-style-differs|{}", fc), || desc(t), || format!("style built with MonoTextStyle::new(other font) and assigned fields: returned {:?} (constructed style: {:?}), bounding box {:?} (constructed: {:?}), first differing pixel {:?}", n2, next, bb2, bb, m2.first_diff(&whole)));
            }
            let (m3, n3, bb3) = draw_font_set_last(t, font);
            if !m3.same(&whole) || n3 != next || bb3 != bb {
                ctx.violation(format!("builder-with-font-set-last-differs|{}", fc), || desc(t), || format!("style built with MonoTextStyleBuilder::new()...font(f).build(): returned {:?} (reference {:?}), bounding box {:?} (reference {:?}), first differing pixel {:?}", n3, next, bb3, bb, m3.first_diff(&whole)));
            }
            ctx.count("texts_also_drawn_with_a_field_assigned_style", 1);
        }
        let mut boxes: Vec<embedded_graphics::primitives::Rectangle> = vec![egmon::target::rect(t.at.0 - 3, t.at.1 - 400, 7, 5), egmon::target::rect(t.at.0, t.at.1, 0, 0)];
        if let Some(cut) = egmon::target::cut_boxes(&whole) {
            boxes.extend(cut);
        }
        let bx = boxes[(whole.hash() % boxes.len() as u64) as usize];
        let mut tg = IterTarget::<C>::new(bx);
        let next_b = draw_onto(t, font, &mut tg);
        let want = egmon::target::restrict(&whole, &bx);
        if next_b != next {
            ctx.violation(format!("position-depends-on-target|{}", fc), || format!("{} on target box {:?}", desc(t), egmon::target::rt(&bx)), || format!("draw returns {:?} on the bounded target and {:?} on an unbounded one", next_b, next));
        } else if !tg.log.map.same(&want) {
            ctx.violation(format!("bounded-target-map-differs|{}", fc), || format!("{} on target box {:?}", desc(t), egmon::target::rt(&bx)), || format!("first difference {:?} (x, y, bounded, unbounded restricted to the box)", tg.log.map.first_diff(&want)));
        }
        ctx.count("bounded_target_draws", 1);
    }

    // --- (1) draw returns the position measure_string predicts (renderer level, single lines)
    for line in t.text.split('\n').map(|l| l.strip_suffix('\r').unwrap_or(l)) {
        ctx.eval();
        let pos = Point::new(t.at.0, t.at.1);
        let (got, want) = t.with_text::<C, _>(font, |text| {
            let style = &text.character_style;
            let bl = text.text_style.baseline;
            let mut tg = IterTarget::<C>::new(unbounded_box());
            let got = style.draw_string(line, pos, bl, &mut tg).unwrap();
            let want = style.measure_string(line, pos, bl).next_position;
            (got, want)
        });
        if got != want {
            let n = line.chars().count() as i32;
            // verified cause predicate of the recorded finding: completely transparent characters,
            // spaced font, and the difference is exactly one trailing character spacing
            let sig = if spaced && transparent_chars && n > 0 && got.y == want.y && got.x - want.x == font.character_spacing as i32 {
                "draw_string-vs-measure_string|transparent-style-adds-trailing-character-spacing".to_string()
            } else {
                format!("draw_string-vs-measure_string|{}|unclassified|dx={}|dy={}", fc, got.x - want.x, got.y - want.y)
            };
            ctx.violation(sig, || format!("{} line {:?}", desc(t), line), || format!("draw_string returns {:?}, measure_string predicts next_position {:?}", got, want));
        }
    }

    // --- (1b, 2) Text::draw of a single left-aligned line returns the predicted position, and
    //             drawing s1 then s2 at the returned position equals drawing s1 + s2
    if !t.text.contains('\n') && t.align == 0 {
        let chars: Vec<char> = t.text.chars().collect();
        // (the first part must not end with a CR: what a CR at the very end of a text means is not
        // fixed by the statement - the library takes it as a line ending)
        let k = if chars.len() >= 2 { rng.usizer(1, chars.len() - 1) } else { 0 };
        if !spaced && chars.len() >= 2 && chars[k - 1] != '\r' {
            ctx.eval();
            let (s1, s2): (String, String) = (chars[..k].iter().collect(), chars[k..].iter().collect());
            let mut t1 = t.clone();
            t1.text = s1;
            let mut tg = IterTarget::<C>::new(unbounded_box());
            let p1 = draw_onto(&t1, font, &mut tg);
            let mut t2 = t.clone();
            t2.text = s2;
            t2.at = (p1.x, p1.y);
            let p2 = draw_onto(&t2, font, &mut tg);
            let (whole, pw) = draw(t, font);
            if !tg.log.map.same(&whole) || p2 != pw {
                ctx.violation(format!("chained-drawing-differs-from-concatenation|{}", fc), || format!("{} split after {} characters", desc(t), k), || {
                    format!("first difference {:?} (x, y, chained, whole); returned positions chained {:?} whole {:?}", tg.log.map.first_diff(&whole), p2, pw)
                });
            }
        }
    }

    // --- (3, 4) alignment and baseline of every line, observable when a background is painted
    // (text and background colour set: every pixel of every character cell is painted)
    if t.bg.is_some() && t.text_color.is_some() && cw > 0 && ch > 0 {
        ctx.eval();
        // draw every line separately to find its painted box
        let lh = line_height_px(t, font);
        let lines: Vec<&str> = t.text.split('\n').map(|l| l.strip_suffix('\r').unwrap_or(l)).collect();
        let (whole, _) = draw(t, font);
        let mut union = PixMap::new();
        for (i, line) in lines.iter().enumerate() {
            let mut tl = t.clone();
            // (a line whose content ends with a CR is drawn on its own with one more CR, which Text
            // takes as the line ending, so that the content stays the same)
            tl.text = if line.ends_with('\r') { format!("{}\r", line) } else { line.to_string() };
            tl.at = (t.at.0, t.at.1 + i as i32 * lh);
            let (m, _) = draw(&tl, font);
            if let Some((x0, y0, x1, _y1)) = m.bounds() {
                // restrict to the glyph rows (decorations may extend below)
                let x = t.at.0;
                let ok = match t.align {
                    0 => x0 == x,
                    2 => x1 == x,
                    _ => (x0 + x1 - 2 * x).abs() <= 1,
                };
                if !ok {
                    ctx.violation(format!("alignment|{}|{}", ["left", "center", "right"][t.align as usize], fc), || format!("{} line {} {:?}", desc(t), i, line), || format!("the line's painted box spans x {}..={}, anchor x = {}", x0, x1, x));
                }
                if i == 0 {
                    let want_top = t.at.1 - baseline_offset(t.baseline, font);
                    // glyph box top; a strikethrough/underline above row 0 cannot exist (offsets are unsigned)
                    if y0 != want_top {
                        ctx.violation(format!("baseline|{}|{}", ["top", "bottom", "middle", "alphabetic"][t.baseline as usize], fc), || desc(t), || format!("first line's top row is y = {}, expected {} (y - baseline offset)", y0, want_top));
                    }
                }
            }
            // later lines overwrite earlier ones where they overlap (same order as Text::draw)
            for (&(x, y), &c) in &m.px {
                union.set(x, y, c);
            }
        }
        // --- (5) text containing \n equals drawing its lines separately line_height apart
        if lines.len() > 1 && !union.same(&whole) {
            ctx.violation(format!("multiline-differs-from-separately-drawn-lines|{}", fc), || desc(t), || format!("first difference {:?} (x, y, lines drawn separately {} px apart, whole text)", union.first_diff(&whole), lh));
        }
    }

    // --- (6) \r\n behaves exactly like \n
    // (line contents are what remains after splitting at LF and taking one CR off the end of each
    // piece; a content that itself ends with a CR cannot be written with an LF ending - "x\r" + LF
    // reads as "x" + CR LF - so such texts have no LF form to compare with)
    let contents: Vec<&str> = t.text.split('\n').map(|l| l.strip_suffix('\r').unwrap_or(l)).collect();
    if t.text.contains('\n') && !contents.iter().any(|l| l.ends_with('\r')) {
        ctx.eval();
        let lf = contents.join("\n");
        let crlf = contents.join("\r\n");
        let mut a = t.clone();
        a.text = lf;
        let mut b = t.clone();
        b.text = crlf;
        let (ma, pa) = draw(&a, font);
        let (mb, pb) = draw(&b, font);
        if !ma.same(&mb) || pa != pb {
            ctx.violation(format!("crlf-differs-from-lf|align={}", ["left", "center", "right"][t.align as usize]), || desc(&b), || format!("first difference {:?} (x, y, LF, CR LF); returned positions LF {:?}, CR LF {:?}", ma.first_diff(&mb), pa, pb));
        }
        // bounding boxes agree as well
        let (ba, bb) = (a.with_text::<C, _>(font, |x| x.bounding_box()), b.with_text::<C, _>(font, |x| x.bounding_box()));
        if ba != bb {
            ctx.violation("crlf-bounding-box-differs-from-lf", || desc(&b), || format!("{:?} vs {:?}", ba, bb));
        }
    }
    ctx.count("texts_checked", 1);
    if t.text.chars().filter(|c| *c != '\n' && *c != '\r').count() >= 2 {
        ctx.nontrivial(zoo::Desc::Text(t.clone()).hash());
    }
    if ctx.wants_sample() {
        ctx.sample(|| jobj! {"text" => desc(t)});
    }
    let _ = Baseline::Top;
}

fn main() {
    main_with("c15", "exploration", |run: &Run| {
        run.set_rule(
            "Strings (empty, single/multi-line, empty lines, trailing newline, CR LF, unmapped characters; fixed list + random) x built-in fonts (every font in the thorough tier; quick: 48 sampled per seed plus the smallest and largest) and custom fonts x 3 alignments x 4 baselines x line heights in pixels and percent x decoration/colour combinations x positions incl. negative. \
             Checks: draw_string vs measure_string per line, Text::draw chaining vs concatenation (spacing-free fonts), painted line boxes vs alignment anchor and baseline offset (background set), multi-line vs separately drawn lines, CR LF vs LF. Non-trivial = at least two printable characters; distinct = distinct text descriptions.",
        );
        let nf = FONTS.len();
        // smallest and largest built-in font by cell area
        let (mut smallest, mut largest) = (0usize, 0usize);
        for (i, f) in FONTS.iter().enumerate() {
            let a = f.2.character_size.width * f.2.character_size.height;
            if a < FONTS[smallest].2.character_size.width * FONTS[smallest].2.character_size.height {
                smallest = i;
            }
            if a > FONTS[largest].2.character_size.width * FONTS[largest].2.character_size.height {
                largest = i;
            }
        }
        // the documented absolute line height itself: `Percent(p)` of a base height b is floor(b p / 100)
        // for every base height a font can have and every percentage a style can reasonably carry
        // (exhaustive: seeded `C15-12` replaced the division by a reciprocal multiplication that is
        // exact for all products below 4699)
        run.section("line-height-to-absolute", |ctx| {
            let (bmax, pmax) = if ctx.run.quick() { (64u32, 2000u32) } else { (256u32, 10_000u32) };
            let mut bad = 0u32;
            for b in 0..=bmax {
                for p in 0..=pmax {
                    ctx.eval();
                    let got = LineHeight::Percent(p).to_absolute(b);
                    let want = ((b as u64 * p as u64) / 100) as u32;
                    if got != want && bad < 3 {
                        bad += 1;
                        ctx.violation("line-height|percent-to-absolute", || format!("LineHeight::Percent({}).to_absolute({})", p, b), || format!("{} instead of floor({} * {} / 100) = {}", got, b, p, want));
                    }
                    if LineHeight::Pixels(p).to_absolute(b) != p && bad < 3 {
                        bad += 1;
                        ctx.violation("line-height|pixels-to-absolute", || format!("LineHeight::Pixels({}).to_absolute({})", p, b), || "not the given pixel count".to_string());
                    }
                }
            }
            // larger operands whose product still fits 32 bits
            let mut x = 0x9E37_79B9u32;
            for _ in 0..2_000_000u32 {
                x ^= x << 13;
                x ^= x >> 17;
                x ^= x << 5;
                let b = x % 2049;
                let p = (x >> 11) % (if b == 0 { 100_000 } else { (u32::MAX / b).min(2_000_000) + 1 });
                ctx.eval();
                let got = LineHeight::Percent(p).to_absolute(b);
                let want = ((b as u64 * p as u64) / 100) as u32;
                if got != want && bad < 3 {
                    bad += 1;
                    ctx.violation("line-height|percent-to-absolute", || format!("LineHeight::Percent({}).to_absolute({})", p, b), || format!("{} instead of {}", got, want));
                }
            }
            ctx.nontrivial(0x11ae);
            ctx.nontrivial(0x11af);
            ctx.count("line_heights_converted", (bmax as u64 + 1) * (pmax as u64 + 1) + 2_000_000);
        });
        let quick = run.quick();
        let seed = run.seed();
        let nb = run.tier(60_000u64, 30_000_000u64);
        run.generate("built-in-fonts", nb, false, 0.5, |ctx, idx, rng| {
            let fi = if quick {
                match idx % 50 {
                    0 => smallest,
                    1 => largest,
                    k => (egmon::rng::mix(seed, k) % nf as u64) as usize,
                }
            } else {
                (idx % nf as u64) as usize
            };
            let s = if idx % 3 == 0 { zoo::gen_string(rng) } else { zoo::STRINGS[((idx / 3) % zoo::STRINGS.len() as u64) as usize].to_string() };
            let mut t = zoo::gen_text_style(rng, FontD::Builtin(fi), s);
            if idx % 2 == 0 {
                t.bg = Some(4);
                t.text_color = Some(1);
            }
            if idx % 7 == 0 {
                t.underline = DecoD::None;
                t.strike = DecoD::None;
            }
            check(ctx, &t, FONTS[fi].2, rng);
        });
        let nc = run.tier(30_000u64, 15_000_000u64);
        run.generate("custom-fonts", nc, false, 0.5, |ctx, idx, rng| {
            let f = zoo::gen_custom_font(rng);
            let s = zoo::gen_custom_string(rng, &f);
            let mut t = zoo::gen_text_style(rng, FontD::Custom(f.clone()), s);
            if idx % 2 == 0 {
                t.bg = Some(4);
                t.text_color = Some(1);
            }
            f.with_font(|font| check(ctx, &t, font, rng));
        });
    })
}
