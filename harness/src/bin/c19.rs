//! C19 — triangles cover their interior and polylines are the union of their segments.
//! Exact cross-product oracles over Triangle::points(), Styled<Triangle>::pixels(), Polyline::points().
use egmon::{jobj, main_with, rng::mix, target::FastSet, Ctx, Rng, Run};
use embedded_graphics::{
    pixelcolor::BinaryColor,
    prelude::*,
    primitives::{Line, PointsIter, Polyline, PrimitiveStyle, Triangle},
};

type P = (i64, i64);

fn cross(o: P, a: P, b: P) -> i64 {
    (a.0 - o.0) * (b.1 - o.1) - (a.1 - o.1) * (b.0 - o.0)
}

fn p64(p: Point) -> P {
    (p.x as i64, p.y as i64)
}

/// strictly inside the triangle (non-degenerate only)
fn strictly_inside(t: [P; 3], p: P) -> bool {
    let (d1, d2, d3) = (cross(t[0], t[1], p), cross(t[1], t[2], p), cross(t[2], t[0], p));
    (d1 > 0 && d2 > 0 && d3 > 0) || (d1 < 0 && d2 < 0 && d3 < 0)
}

fn in_closed(t: [P; 3], p: P) -> bool {
    let (d1, d2, d3) = (cross(t[0], t[1], p), cross(t[1], t[2], p), cross(t[2], t[0], p));
    let area = cross(t[0], t[1], t[2]);
    if area == 0 {
        // degenerate: the closed triangle is the segment hull of the three points
        return on_segment(t[0], t[1], p) || on_segment(t[1], t[2], p) || on_segment(t[2], t[0], p);
    }
    (d1 >= 0 && d2 >= 0 && d3 >= 0) || (d1 <= 0 && d2 <= 0 && d3 <= 0)
}

fn on_segment(a: P, b: P, p: P) -> bool {
    cross(a, b, p) == 0 && p.0 >= a.0.min(b.0) && p.0 <= a.0.max(b.0) && p.1 >= a.1.min(b.1) && p.1 <= a.1.max(b.1)
}

/// squared distance from p to segment ab is <= 1 (exact)
fn within_1px_of_segment(a: P, b: P, p: P) -> bool {
    let (dx, dy) = (b.0 - a.0, b.1 - a.1);
    let len2 = dx * dx + dy * dy;
    let (qx, qy) = (p.0 - a.0, p.1 - a.1);
    if len2 == 0 {
        return qx * qx + qy * qy <= 1;
    }
    let dot = qx * dx + qy * dy;
    if dot <= 0 {
        qx * qx + qy * qy <= 1
    } else if dot >= len2 {
        let (rx, ry) = (p.0 - b.0, p.1 - b.1);
        rx * rx + ry * ry <= 1
    } else {
        let c = qx * dy - qy * dx;
        c * c <= len2
    }
}

fn line_set(a: Point, b: Point) -> Vec<(i32, i32)> {
    Line::new(a, b).points().map(|p| (p.x, p.y)).collect()
}

fn tri_points(t: &Triangle, budget: usize) -> Vec<Point> {
    t.points().take(budget).collect()
}

fn tdesc(v: [Point; 3]) -> String {
    format!("Triangle {:?} {:?} {:?}", (v[0].x, v[0].y), (v[1].x, v[1].y), (v[2].x, v[2].y))
}

fn check_triangle(ctx: &mut Ctx, v: [Point; 3]) -> FastSet<(i32, i32)> {
    ctx.eval();
    let t = Triangle::new(v[0], v[1], v[2]);
    let bb = t.bounding_box();
    let budget = (bb.size.width as usize + 2) * (bb.size.height as usize + 2) + 16;
    let pts = tri_points(&t, budget + 1);
    let case = || tdesc(v);
    let mut set: FastSet<(i32, i32)> = FastSet::default();
    if pts.len() > budget {
        ctx.violation("triangle|points-exceed-bounding-box-area", case, || format!("more than {} points", budget));
        return set;
    }
    for p in &pts {
        set.insert((p.x, p.y));
    }
    let tv = [p64(v[0]), p64(v[1]), p64(v[2])];
    let degenerate = cross(tv[0], tv[1], tv[2]) == 0;
    // (a) every strictly interior lattice point is covered
    if !degenerate {
        for y in bb.top_left.y..bb.top_left.y + bb.size.height as i32 {
            for x in bb.top_left.x..bb.top_left.x + bb.size.width as i32 {
                if strictly_inside(tv, (x as i64, y as i64)) && !set.contains(&(x, y)) {
                    ctx.violation("triangle|interior-point-not-covered", case, || format!("({},{}) is strictly inside but not yielded", x, y));
                    return set;
                }
            }
        }
    }
    // (b) every covered point is inside the closed triangle or within one pixel of an edge
    for p in &pts {
        let q = p64(*p);
        if !(in_closed(tv, q) || within_1px_of_segment(tv[0], tv[1], q) || within_1px_of_segment(tv[1], tv[2], q) || within_1px_of_segment(tv[2], tv[0], q)) {
            ctx.violation("triangle|covered-point-more-than-1px-outside", case, || format!("{:?} is yielded but more than one pixel away from the triangle", p));
            break;
        }
    }
    // (c) the result does not depend on the order of the vertices
    for perm in [[0, 2, 1], [1, 0, 2], [1, 2, 0], [2, 0, 1], [2, 1, 0]] {
        let t2 = Triangle::new(v[perm[0]], v[perm[1]], v[perm[2]]);
        let p2 = tri_points(&t2, budget + 1);
        if p2.len() != pts.len() || p2.iter().any(|p| !set.contains(&(p.x, p.y))) {
            ctx.violation("triangle|depends-on-vertex-order", case, || format!("vertex order {:?} yields {} points instead of {}", perm, p2.len(), pts.len()));
            break;
        }
    }
    // (e) a one-pixel outline consists of the three edge lines (either direction of each edge)
    ctx.eval();
    // (a 1 px stroke has no inside or outside part to distribute: the statement holds for every
    // stroke alignment; the alignment varies with the case)
    let outline_align = (tv[0].0 + 2 * tv[1].0 + 3 * tv[2].1 + tv[0].1).rem_euclid(4);
    let outline_style = match outline_align {
        0 => PrimitiveStyle::with_stroke(BinaryColor::On, 1),
        1 => embedded_graphics::primitives::PrimitiveStyleBuilder::new().stroke_color(BinaryColor::On).stroke_width(1).stroke_alignment(embedded_graphics::primitives::StrokeAlignment::Inside).build(),
        2 => embedded_graphics::primitives::PrimitiveStyleBuilder::new().stroke_color(BinaryColor::On).stroke_width(1).stroke_alignment(embedded_graphics::primitives::StrokeAlignment::Outside).build(),
        _ => embedded_graphics::primitives::PrimitiveStyleBuilder::new().stroke_color(BinaryColor::On).stroke_width(1).stroke_alignment(embedded_graphics::primitives::StrokeAlignment::Center).build(),
    };
    let outline: FastSet<(i32, i32)> = t.into_styled(outline_style).pixels().take(budget * 3 + 64).map(|p| (p.0.x, p.0.y)).collect();
    let edges = [(v[0], v[1]), (v[1], v[2]), (v[2], v[0])];
    let mut ok = false;
    for combo in 0..8 {
        let mut u: FastSet<(i32, i32)> = FastSet::default();
        for (i, (a, b)) in edges.iter().enumerate() {
            let (a, b) = if combo >> i & 1 == 1 { (*b, *a) } else { (*a, *b) };
            u.extend(line_set(a, b));
        }
        if u == outline {
            ok = true;
            break;
        }
    }
    if !ok {
        ctx.violation("triangle|1px-outline-is-not-the-three-edge-lines", || format!("{} stroke alignment {}", case(), ["Center (with_stroke)", "Inside", "Outside", "Center"][outline_align as usize]), || format!("outline has {} pixels", outline.len()));
    }
    // (f) what draw() leaves on a target is the same coverage: on an unbounded target, and on
    // bounded targets at non-zero origins whose edges coincide with or cut through the triangle
    // exactly the part inside the target (filled and 1 px outline; every fourth case)
    if (tv[0].0 + 3 * tv[1].1 + 5 * tv[2].0).rem_euclid(4) == 0 {
        use egmon::target::{cut_boxes, restrict, unbounded_box, IterTarget, NativeTarget, PixMap};
        ctx.eval();
        // a fill without a stroke is the same filled triangle however the (absent) stroke is
        // configured: the alignment and stroke colour of a zero-width stroke vary with the case
        // (non-degenerate triangles; with_fill for the others)
        let fill_variant = if degenerate { 0 } else { (tv[0].1 + 2 * tv[1].0 + 3 * tv[2].1 + tv[2].0).rem_euclid(6) };
        let fill_style = {
            use embedded_graphics::primitives::{PrimitiveStyleBuilder, StrokeAlignment};
            let b = PrimitiveStyleBuilder::new().fill_color(BinaryColor::On).stroke_width(0);
            match fill_variant {
                0 => PrimitiveStyle::with_fill(BinaryColor::On),
                1 => b.stroke_alignment(StrokeAlignment::Inside).build(),
                2 => b.stroke_alignment(StrokeAlignment::Outside).build(),
                3 => b.stroke_alignment(StrokeAlignment::Center).stroke_color(BinaryColor::Off).build(),
                4 => b.stroke_alignment(StrokeAlignment::Inside).stroke_color(BinaryColor::Off).build(),
                _ => b.stroke_alignment(StrokeAlignment::Outside).stroke_color(BinaryColor::Off).build(),
            }
        };
        ctx.count(["fills_with_fill", "fills_zero_width_stroke_inside", "fills_zero_width_stroke_outside", "fills_zero_width_coloured_stroke_center", "fills_zero_width_coloured_stroke_inside", "fills_zero_width_coloured_stroke_outside"][fill_variant as usize], 1);
        let fill_pixels: FastSet<(i32, i32)> = t.into_styled(fill_style).pixels().take(budget * 3 + 64).map(|p| (p.0.x, p.0.y)).collect();
        if fill_pixels != set {
            ctx.violation("triangle|filled-pixels-differ-from-points", || format!("{} fill style variant {}", case(), fill_variant), || format!("pixels() of the fill-only style has {} points, points() {}", fill_pixels.len(), set.len()));
        }
        for (what, want_set, style) in [("filled", &set, fill_style), ("1px-outline", &outline, outline_style)] {
            let mut want = PixMap::new();
            for &(x, y) in want_set.iter() {
                want.set(x, y, 1);
            }
            let mut boxes = vec![unbounded_box()];
            if let Some(cut) = cut_boxes(&want) {
                boxes.push(cut[(want.hash() / 7 % 5) as usize]);
            }
            for bx in boxes {
                let mut a = IterTarget::<BinaryColor>::new(bx);
                let mut b = NativeTarget::<BinaryColor>::new(bx);
                let _ = t.into_styled(style).draw(&mut a);
                let _ = t.into_styled(style).draw(&mut b);
                let want_in = restrict(&want, &bx);
                for (path, map) in [("draw_iter-only", &a.log.map), ("native", &b.log.map)] {
                    if !map.same(&want_in) {
                        ctx.violation(format!("triangle|draw-{}-differs-from-points-inside-the-target", what), || format!("{} on target box {:?} (fill style variant {})", case(), egmon::target::rt(&bx), fill_variant), || format!("{} target: first difference {:?} (x, y, drawn, expected)", path, map.first_diff(&want_in)));
                        break;
                    }
                }
            }
        }
        ctx.count("triangles_drawn_on_targets", 1);
    }
    ctx.count("triangle_points", pts.len() as u64);
    if !degenerate {
        ctx.nontrivial(mix(mix(mix(tv[0].0 as u64, tv[0].1 as u64), mix(tv[1].0 as u64, tv[1].1 as u64)), mix(tv[2].0 as u64, tv[2].1 as u64)));
    }
    set
}

/// two triangles sharing edge (a, b) with apexes c, d on opposite sides
fn check_quad(ctx: &mut Ctx, a: Point, b: Point, c: Point, d: Point) {
    let (pa, pb, pc, pd) = (p64(a), p64(b), p64(c), p64(d));
    let (sc, sd) = (cross(pa, pb, pc), cross(pa, pb, pd));
    if sc == 0 || sd == 0 || (sc > 0) == (sd > 0) {
        return;
    }
    ctx.eval();
    let t1 = Triangle::new(a, b, c);
    let t2 = Triangle::new(a, d, b);
    let s1: FastSet<(i32, i32)> = t1.points().take(100_000).map(|p| (p.x, p.y)).collect();
    let s2: FastSet<(i32, i32)> = t2.points().take(100_000).map(|p| (p.x, p.y)).collect();
    let case = || format!("triangles {} and {} sharing edge {:?}-{:?}", tdesc([a, b, c]), tdesc([a, d, b]), (a.x, a.y), (b.x, b.y));
    // no gap: every lattice point of the closed union is in at least one of them
    let xs = [a.x, b.x, c.x, d.x];
    let ys = [a.y, b.y, c.y, d.y];
    for y in *ys.iter().min().unwrap()..=*ys.iter().max().unwrap() {
        for x in *xs.iter().min().unwrap()..=*xs.iter().max().unwrap() {
            let q = (x as i64, y as i64);
            if (in_closed([pa, pb, pc], q) || in_closed([pa, pd, pb], q)) && !s1.contains(&(x, y)) && !s2.contains(&(x, y)) {
                ctx.violation("shared-edge|gap-between-triangles", case, || format!("({},{}) lies in the union of the two triangles but in neither point set", x, y));
                return;
            }
        }
    }
    // same pixels along the shared edge
    let (e1, e2) = (line_set(a, b), line_set(b, a));
    let in_both = |e: &Vec<(i32, i32)>| e.iter().all(|p| s1.contains(p) && s2.contains(p));
    if !(in_both(&e1) || in_both(&e2)) {
        ctx.violation("shared-edge|edge-pixels-differ", case, || "the Line pixels of the shared edge (in neither direction) are contained in both triangles".into());
    }
    ctx.count("shared_edge_pairs", 1);
    ctx.nontrivial(mix(mix(mix(pa.0 as u64, pa.1 as u64), mix(pb.0 as u64, pb.1 as u64)), mix(mix(pc.0 as u64, pc.1 as u64), mix(pd.0 as u64, pd.1 as u64))) ^ 0x51);
}

fn check_polyline(ctx: &mut Ctx, v: &[Point], tr: Point) {
    ctx.eval();
    let pl = Polyline::new(v).translate(tr);
    let got: Vec<Point> = pl.points().take(200_000).collect();
    // Line(v0,v1) ++ Line(v1,v2)[1..] ++ ...
    let mut want: Vec<Point> = Vec::new();
    if v.len() >= 2 {
        for (i, w) in v.windows(2).enumerate() {
            let seg: Vec<Point> = Line::new(w[0] + tr, w[1] + tr).points().collect();
            if i == 0 {
                want.extend(seg);
            } else {
                want.extend(seg.into_iter().skip(1));
            }
        }
    }
    let case = || format!("Polyline {:?} translated by {:?}", v.iter().map(|p| (p.x, p.y)).collect::<Vec<_>>(), (tr.x, tr.y));
    if got != want {
        let first = got.iter().zip(want.iter()).position(|(a, b)| a != b);
        let k = if got.len() > want.len() { "joint-emitted-twice-or-extra-points" } else if got.len() < want.len() { "points-missing" } else { "points-differ" };
        ctx.violation(format!("polyline|points|{}", k), case, || format!("{} points, expected {} (segment lines with shared joints once); first difference at {:?}", got.len(), want.len(), first));
    }
    // the same points through the other ways of consuming the iterator, from partly consumed states
    if got == want && got.len() <= 400 {
        let n = got.len();
        let seg0 = if v.len() >= 2 { Line::new(v[0], v[1]).points().count() } else { 0 };
        if let Some(d) = egmon::target::consumer_disagreement(&|| pl.points(), &got, &[0, 1, seg0.saturating_sub(1), seg0, seg0 + 1, n / 2, n]) {
            ctx.violation("polyline|points-iterator-consumed-differently", case, || d.clone());
        }
    }
    // styled with a one-pixel stroke: same sequence
    let px: Vec<Point> = pl.into_styled(PrimitiveStyle::with_stroke(BinaryColor::On, 1)).pixels().take(200_000).map(|p| p.0).collect();
    if px != want {
        ctx.violation("polyline|1px-stroke-differs-from-segment-lines", case, || format!("{} pixels, expected {}", px.len(), want.len()));
    }
    // what draw() leaves on a target is that union too: unbounded, and bounded targets whose edges
    // coincide with / cut through the (translated) polyline (every fourth case)
    if got == want && !want.is_empty() && (want.len() + v.len()) % 4 == 0 {
        use egmon::target::{cut_boxes, restrict, unbounded_box, IterTarget, NativeTarget, PixMap};
        ctx.eval();
        let mut wm = PixMap::new();
        for q in &want {
            wm.set(q.x, q.y, 1);
        }
        let mut boxes = vec![unbounded_box()];
        if let Some(cut) = cut_boxes(&wm) {
            boxes.push(cut[(wm.hash() / 7 % 5) as usize]);
        }
        let styled = pl.into_styled(PrimitiveStyle::with_stroke(BinaryColor::On, 1));
        for bx in boxes {
            let mut a = IterTarget::<BinaryColor>::new(bx);
            let mut b = NativeTarget::<BinaryColor>::new(bx);
            let _ = styled.draw(&mut a);
            let _ = styled.draw(&mut b);
            let want_in = restrict(&wm, &bx);
            if !a.log.map.same(&want_in) || !b.log.map.same(&want_in) {
                ctx.violation("polyline|draw-differs-from-segment-lines-inside-the-target", || format!("{} on target box {:?}", case(), egmon::target::rt(&bx)), || format!("first difference {:?} / {:?} (x, y, drawn, expected; draw_iter-only / native target)", a.log.map.first_diff(&want_in), b.log.map.first_diff(&want_in)));
                break;
            }
        }
        ctx.count("polylines_drawn_on_targets", 1);
    }
    ctx.count("polyline_points", got.len() as u64);
    if want.len() >= 2 {
        ctx.nontrivial(egmon::rng::hash_str(&case()));
    }
    if ctx.wants_sample() {
        ctx.sample(|| jobj! {"polyline" => case(), "points" => got.len() as u64});
    }
}

fn main() {
    main_with("c19", "exploration", |run: &Run| {
        run.set_rule(
            "Triangles: every ordered vertex triple on a GxG grid (exhaustive, including colinear and coincident vertices) at shifted positions, plus random triples +-100; for each: interior coverage, 1-px band, all 6 vertex orders, 1-px outline = three Lines. \
             Shared edges: all quadruples (a,b,c,d) on a QxQ grid with c, d on opposite sides of a-b (exhaustive) plus random. Polylines: 0..=6 vertices (1 in 8: 7..=14) incl. repeated vertices and reversals, translated and untranslated. \
             Non-trivial = non-degenerate triangle / valid opposite-side pair / polyline with >= 2 points; distinct = distinct vertex tuples.",
        );
        let g = run.tier(7u64, 12u64);
        let gp = g * g;
        run.generate("triangle-grid", gp * gp * gp, true, 0.3, |ctx, idx, _rng| {
            let at = |i: u64| Point::new((i % g) as i32, (i / g) as i32);
            let shift = match idx % 3 {
                0 => Point::zero(),
                1 => Point::new(-3, -2),
                _ => Point::new(-40, 17),
            };
            let v = [at(idx % gp) + shift, at((idx / gp) % gp) + shift, at(idx / (gp * gp)) + shift];
            let set = check_triangle(ctx, v);
            if ctx.wants_sample() {
                ctx.sample(|| jobj! {"triangle" => tdesc(v), "points" => set.len() as u64});
            }
        });
        let nr = run.tier(40_000u64, 6_000_000u64);
        run.generate("triangle-random", nr, false, 0.2, |ctx, _idx, rng| {
            let p = |rng: &mut Rng| Point::new(rng.i32r(-100, 100), rng.i32r(-100, 100));
            // one triangle in eight lies far from the origin (beyond 16 bits on one or both axes)
            let far = |rng: &mut Rng| match rng.below(6) {
                0 => 32_768 + rng.i32r(-100, 100),
                1 => -65_536 + rng.i32r(-100, 100),
                2 => rng.i32r(40_000, 1_000_000),
                3 => -rng.i32r(40_000, 1_000_000),
                _ => rng.i32r(-100, 100),
            };
            let a = if rng.chance(1, 8) { Point::new(far(rng), far(rng)) } else { p(rng) };
            let near = |rng: &mut Rng, a: Point| Point::new(a.x + rng.i32r(-60, 60), a.y + rng.i32r(-60, 60));
            let v = [a, near(rng, a), near(rng, a)];
            check_triangle(ctx, v);
        });
        let nbig = run.tier(300u64, 20_000u64);
        run.generate("triangle-large", nbig, false, 0.2, |ctx, _idx, rng| {
            let p = |rng: &mut Rng| Point::new(rng.i32r(-600, 600), rng.i32r(-400, 400));
            check_triangle(ctx, [p(rng), p(rng), p(rng)]);
        });
        // edges of several thousand pixels (beyond the 24-bit mantissa of an f32 product, beyond any
        // display): mostly slivers along the long edge, so that the fill stays cheap (seeded `C19-13`:
        // the scanline intersection of steep lines in closed form, evaluated in f32 - exact below 2964 px)
        let nlong = run.tier(64u64, 3000u64);
        run.generate("very-long-edges", nlong, false, 0.15, |ctx, idx, rng| {
            let a = Point::new(rng.i32r(-300, 300), rng.i32r(-300, 300));
            let major = match rng.below(4) {
                0 => rng.i32r(2900, 3100),
                1 => rng.i32r(4000, 4200),
                _ => rng.i32r(2500, 6500),
            };
            let minor = match rng.below(4) {
                0 => major,
                1 => rng.i32r(0, 40),
                _ => rng.i32r(major / 2, major),
            };
            let (sx, sy) = (if rng.chance(1, 2) { 1 } else { -1 }, if rng.chance(1, 2) { 1 } else { -1 });
            let d = if idx % 3 == 0 { Point::new(major * sx, minor * sy) } else { Point::new(minor * sx, major * sy) };
            let b = a + d;
            let c = match rng.below(6) {
                0 => Point::new(rng.i32r(-700, 700), rng.i32r(-700, 700)),
                1 | 2 => Point::new(a.x + rng.i32r(-40, 40), a.y + rng.i32r(-40, 40)),
                3 => Point::new(b.x + rng.i32r(-40, 40), b.y + rng.i32r(-40, 40)),
                _ => Point::new(a.x + d.x / 2 + rng.i32r(-60, 60), a.y + d.y / 2 + rng.i32r(-60, 60)),
            };
            check_triangle(ctx, [a, b, c]);
            ctx.count("triangles_with_an_edge_of_thousands_of_pixels", 1);
        });
        let q = run.tier(6u64, 7u64);
        let qp = q * q;
        run.generate("shared-edge-grid", qp * qp * qp * qp, true, 0.25, |ctx, idx, _rng| {
            let at = |i: u64| Point::new((i % q) as i32 - 1, (i / q) as i32 - 2);
            let (a, b, c, d) = (at(idx % qp), at((idx / qp) % qp), at((idx / (qp * qp)) % qp), at(idx / (qp * qp * qp)));
            check_quad(ctx, a, b, c, d);
        });
        let nq = run.tier(40_000u64, 8_000_000u64);
        run.generate("shared-edge-random", nq, false, 0.15, |ctx, _idx, rng| {
            let p = |rng: &mut Rng| Point::new(rng.i32r(-60, 60), rng.i32r(-60, 60));
            check_quad(ctx, p(rng), p(rng), p(rng), p(rng));
        });
        let np = run.tier(100_000u64, 30_000_000u64);
        run.generate("polylines", np, false, 0.2, |ctx, _idx, rng| {
            // 0..=6 vertices (the statement's range), occasionally longer ones
            let n = if rng.chance(1, 8) { rng.usizer(7, 14) } else { rng.usizer(0, 6) };
            let mut v: Vec<Point> = Vec::new();
            let mut cur = Point::new(rng.i32r(-30, 30), rng.i32r(-30, 30));
            if rng.chance(1, 8) {
                // far from the origin
                let far = |rng: &mut Rng| if rng.chance(1, 3) { rng.i32r(-30, 30) } else if rng.chance(1, 2) { rng.i32r(32_700, 70_000) } else { -rng.i32r(32_700, 1_000_000) };
                cur = Point::new(far(rng), far(rng));
            }
            for _ in 0..n {
                v.push(cur);
                cur = match rng.below(8) {
                    0 => cur,
                    1 if v.len() >= 2 => v[v.len() - 2],
                    2 => Point::new(cur.x + rng.i32r(-12, 12), cur.y),
                    _ => Point::new(cur.x + rng.i32r(-12, 12), cur.y + rng.i32r(-12, 12)),
                };
            }
            let tr = if rng.chance(1, 2) { Point::zero() } else { Point::new(rng.i32r(-20, 20), rng.i32r(-20, 20)) };
            check_polyline(ctx, &v, tr);
        });
    })
}
