//! Check runner: CLI, sharded case generation, three-valued verdicts, evidence, known findings,
//! replay files.
use crate::{
    json::J,
    mon::{self, Origin, PanicInfo},
    rng::{hash_str, Rng},
};
use std::{
    collections::{BTreeMap, HashSet},
    fs,
    path::{Path, PathBuf},
    sync::{
        atomic::{AtomicBool, AtomicU64, Ordering},
        Mutex,
    },
    time::Instant,
};

#[derive(Clone, Copy, PartialEq, Eq, Debug)]
pub enum Tier {
    Quick,
    Thorough,
}

#[derive(Clone, Debug)]
pub struct Replay {
    pub gen: String,
    pub index: u64,
    pub path: String,
}

#[derive(Clone, Debug)]
pub struct Cli {
    pub tier: Tier,
    pub seed: u64,
    pub replay: Option<Replay>,
    /// write a partial summary instead of the evidence file (second feature set)
    pub part: Option<String>,
    /// partial summaries to embed into the evidence file
    pub embed: Vec<PathBuf>,
    pub jobs: usize,
    pub time_cap_s: f64,
    pub root: PathBuf,
    /// where evidence/ and replays/ are written (VERIF_OUT, default: root)
    pub out: PathBuf,
}

fn verif_root() -> PathBuf {
    if let Ok(r) = std::env::var("VERIF_ROOT") {
        return PathBuf::from(r);
    }
    Path::new(env!("CARGO_MANIFEST_DIR")).parent().unwrap().to_path_buf()
}

impl Cli {
    pub fn parse() -> Cli {
        let args: Vec<String> = std::env::args().skip(1).collect();
        let mut tier = match std::env::var("VERIF_TIER").ok().as_deref() {
            Some("thorough") => Tier::Thorough,
            _ => Tier::Quick,
        };
        let mut seed = std::env::var("VERIF_SEED").ok().and_then(|s| s.trim().parse::<i64>().ok()).map(|x| x as u64).unwrap_or(1);
        let mut replay = None;
        let mut part = None;
        let mut embed = Vec::new();
        let mut time_cap: Option<f64> = std::env::var("VERIF_TIME_CAP").ok().and_then(|s| s.parse().ok());
        let mut i = 0;
        while i < args.len() {
            match args[i].as_str() {
                "quick" => tier = Tier::Quick,
                "thorough" => tier = Tier::Thorough,
                "--seed" => {
                    i += 1;
                    seed = args[i].parse::<i64>().expect("--seed <int>") as u64;
                }
                "--part" => {
                    i += 1;
                    part = Some(args[i].clone());
                }
                "--embed" => {
                    i += 1;
                    embed.push(PathBuf::from(&args[i]));
                }
                "--time-cap" => {
                    i += 1;
                    time_cap = args[i].parse().ok();
                }
                "--replay" => {
                    i += 1;
                    let text = fs::read_to_string(&args[i]).unwrap_or_else(|e| {
                        eprintln!("cannot read replay file {}: {}", args[i], e);
                        std::process::exit(2)
                    });
                    let mut gen = None;
                    let mut index = None;
                    for l in text.lines() {
                        if let Some(v) = l.strip_prefix("gen=") {
                            gen = Some(v.trim().to_string());
                        } else if let Some(v) = l.strip_prefix("index=") {
                            index = v.trim().parse::<u64>().ok();
                        } else if let Some(v) = l.strip_prefix("seed=") {
                            if let Ok(s) = v.trim().parse::<u64>() {
                                seed = s;
                            }
                        } else if let Some(v) = l.strip_prefix("tier=") {
                            tier = if v.trim() == "thorough" { Tier::Thorough } else { Tier::Quick };
                        }
                    }
                    match (gen, index) {
                        (Some(gen), Some(index)) => replay = Some(Replay { gen, index, path: args[i].clone() }),
                        _ => {
                            eprintln!("replay file lacks gen=/index= lines");
                            std::process::exit(2)
                        }
                    }
                }
                other => {
                    eprintln!("unknown argument {}", other);
                    std::process::exit(2)
                }
            }
            i += 1;
        }
        let jobs = std::env::var("VERIF_JOBS")
            .ok()
            .and_then(|s| s.parse().ok())
            .unwrap_or_else(|| std::thread::available_parallelism().map(|n| n.get()).unwrap_or(4))
            .max(1);
        let time_cap_s = time_cap.unwrap_or(match tier {
            Tier::Quick => 75.0,
            Tier::Thorough => 1500.0,
        });
        Cli {
            tier,
            seed,
            replay,
            part,
            embed,
            jobs,
            time_cap_s,
            root: verif_root(),
            out: std::env::var("VERIF_OUT").map(PathBuf::from).unwrap_or_else(|_| verif_root()),
        }
    }
}

#[derive(Clone, Debug)]
struct Viol {
    sig: String,
    gen: String,
    index: u64,
    case: String,
    detail: String,
    count: u64,
}

#[derive(Clone, Debug)]
struct Known {
    property: String,
    signature: String,
    what: String,
}

#[derive(Default)]
struct GenStat {
    name: String,
    planned: u64,
    done: u64,
    evals: u64,
    time_capped: bool,
    exhaustive: bool,
    wall_s: f64,
}

/// beyond this many distinct non-trivial case hashes the set stops growing (the reported count is
/// then a lower bound, flagged in the evidence)
const NONTRIVIAL_CAP: usize = 40_000_000;

#[derive(Default)]
struct State {
    nontrivial_saturated: bool,
    evaluations: u64,
    nontrivial: HashSet<u64>,
    nontrivial_extra: u64,
    samples: Vec<J>,
    viol: BTreeMap<String, Viol>,
    counters: BTreeMap<String, u64>,
    maxima: BTreeMap<String, u64>,
    distinct: BTreeMap<String, HashSet<u64>>,
    gens: Vec<GenStat>,
    harness_errors: Vec<String>,
    notes: Vec<String>,
    extra: Vec<(String, J)>,
}

pub struct Run {
    pub id: &'static str,
    pub level: &'static str,
    pub cli: Cli,
    pub start: Instant,
    rule: Mutex<String>,
    assumptions: Mutex<Vec<String>>,
    state: Mutex<State>,
    known: Vec<Known>,
    stop: AtomicBool,
    replay_hit: AtomicBool,
}

/// Wall-clock limit for a single case (VERIF_WATCHDOG_SECS, default 600): far above the cost of
/// any case (the slowest ones take a few seconds), so that it only fires on non-termination.
pub fn watchdog_secs() -> u64 {
    static V: std::sync::OnceLock<u64> = std::sync::OnceLock::new();
    *V.get_or_init(|| std::env::var("VERIF_WATCHDOG_SECS").ok().and_then(|v| v.parse().ok()).filter(|v| *v >= 5).unwrap_or(600))
}

/// Per-thread accumulation, merged into the run at the end of a shard.
pub struct Ctx<'r> {
    pub run: &'r Run,
    pub gen: &'static str,
    pub index: u64,
    evals: u64,
    nontrivial: HashSet<u64>,
    counters: BTreeMap<&'static str, u64>,
    maxima: BTreeMap<&'static str, u64>,
    distinct: BTreeMap<&'static str, HashSet<u64>>,
    samples: Vec<J>,
    sample_budget: usize,
    viol: Vec<Viol>,
    harness_errors: Vec<String>,
}

impl<'r> Ctx<'r> {
    fn new(run: &'r Run, gen: &'static str) -> Self {
        Ctx {
            run,
            gen,
            index: 0,
            evals: 0,
            nontrivial: HashSet::new(),
            counters: BTreeMap::new(),
            maxima: BTreeMap::new(),
            distinct: BTreeMap::new(),
            samples: Vec::new(),
            sample_budget: 0,
            viol: Vec::new(),
            harness_errors: Vec::new(),
        }
    }
    /// one oracle evaluation happened
    #[inline]
    pub fn eval(&mut self) {
        self.evals += 1;
    }
    #[inline]
    pub fn evals(&mut self, n: u64) {
        self.evals += n;
    }
    /// the current case is non-trivial by the property's rule; `h` identifies it
    #[inline]
    pub fn nontrivial(&mut self, h: u64) {
        self.nontrivial.insert(h);
        if self.nontrivial.len() >= 200_000 {
            let set = std::mem::take(&mut self.nontrivial);
            let mut st = self.run.state.lock().unwrap();
            if st.nontrivial.len() < NONTRIVIAL_CAP {
                st.nontrivial.extend(set);
            } else {
                st.nontrivial_saturated = true;
            }
        }
    }
    #[inline]
    pub fn count(&mut self, key: &'static str, n: u64) {
        *self.counters.entry(key).or_insert(0) += n;
    }
    #[inline]
    pub fn max(&mut self, key: &'static str, v: u64) {
        let e = self.maxima.entry(key).or_insert(0);
        if v > *e {
            *e = v;
        }
    }
    /// number of distinct values seen under `key` (e.g. distinct final pixel maps)
    #[inline]
    pub fn distinct(&mut self, key: &'static str, h: u64) {
        self.distinct.entry(key).or_default().insert(h);
    }
    pub fn replaying(&self) -> bool {
        self.run.cli.replay.is_some()
    }
    /// offer a sample of what the run looked at (kept for the first cases of each shard)
    pub fn sample(&mut self, f: impl FnOnce() -> J) {
        if self.sample_budget > 0 {
            self.sample_budget -= 1;
            let j = f();
            self.samples.push(crate::jobj! {"gen" => self.gen, "index" => self.index, "case" => j});
        }
    }
    pub fn wants_sample(&self) -> bool {
        self.sample_budget > 0
    }
    /// report a rejected execution. `sig` names what failed and how (see DESIGN §2.8).
    pub fn violation(&mut self, sig: impl Into<String>, case: impl FnOnce() -> String, detail: impl FnOnce() -> String) {
        let sig = sig.into();
        if let Some(v) = self.viol.iter_mut().find(|v| v.sig == sig) {
            v.count += 1;
            return;
        }
        self.viol.push(Viol {
            sig,
            gen: self.gen.to_string(),
            index: self.index,
            case: case(),
            detail: detail(),
            count: 1,
        });
    }
    /// a panic escaped from library code while evaluating the current case
    pub fn panic(&mut self, pi: &PanicInfo, case: impl FnOnce() -> String) {
        match pi.origin {
            Origin::Repo => {
                let d = pi.describe();
                self.violation(pi.signature(), case, || d);
            }
            Origin::Harness | Origin::Unknown => {
                if self.harness_errors.len() < 8 {
                    self.harness_errors.push(format!("{} in gen={} index={} case: {}", pi.describe(), self.gen, self.index, case()));
                }
            }
        }
    }
    fn merge(self) {
        let mut st = self.run.state.lock().unwrap();
        st.evaluations += self.evals;
        if st.nontrivial.len() < NONTRIVIAL_CAP {
            st.nontrivial.extend(self.nontrivial);
        } else {
            st.nontrivial_saturated = true;
        }
        for (k, v) in self.counters {
            *st.counters.entry(k.to_string()).or_insert(0) += v;
        }
        for (k, v) in self.maxima {
            let e = st.maxima.entry(k.to_string()).or_insert(0);
            if v > *e {
                *e = v;
            }
        }
        for (k, v) in self.distinct {
            st.distinct.entry(k.to_string()).or_default().extend(v);
        }
        if st.samples.len() < 40 {
            st.samples.extend(self.samples);
        }
        for v in self.viol {
            match st.viol.get_mut(&v.sig) {
                Some(e) => {
                    e.count += v.count;
                    if (v.gen.as_str(), v.index) < (e.gen.as_str(), e.index) {
                        let c = e.count;
                        *e = v;
                        e.count = c;
                    }
                }
                None => {
                    st.viol.insert(v.sig.clone(), v);
                }
            }
        }
        for e in self.harness_errors {
            if st.harness_errors.len() < 16 {
                st.harness_errors.push(e);
            }
        }
    }
}

impl Run {
    pub fn new(id: &'static str, level: &'static str) -> Run {
        mon::install();
        let cli = Cli::parse();
        // VERIF_KNOWN_FINDINGS overrides the file (used to regenerate the witnesses of open entries)
        let known_path = std::env::var("VERIF_KNOWN_FINDINGS").map(PathBuf::from).unwrap_or_else(|_| cli.root.join("known_findings.txt"));
        let known = load_known(&known_path, id);
        Run {
            id,
            level,
            cli,
            start: Instant::now(),
            rule: Mutex::new(String::new()),
            assumptions: Mutex::new(Vec::new()),
            state: Mutex::new(State::default()),
            known,
            stop: AtomicBool::new(false),
            replay_hit: AtomicBool::new(false),
        }
    }
    pub fn quick(&self) -> bool {
        self.cli.tier == Tier::Quick
    }
    pub fn seed(&self) -> u64 {
        self.cli.seed
    }
    /// pick by tier
    pub fn tier<T>(&self, quick: T, thorough: T) -> T {
        if self.quick() {
            quick
        } else {
            thorough
        }
    }
    pub fn set_rule(&self, r: &str) {
        *self.rule.lock().unwrap() = r.to_string();
    }
    pub fn assume(&self, a: &str) {
        self.assumptions.lock().unwrap().push(a.to_string());
    }
    pub fn note(&self, n: String) {
        self.state.lock().unwrap().notes.push(n);
    }
    pub fn extra(&self, k: &str, v: J) {
        self.state.lock().unwrap().extra.push((k.to_string(), v));
    }
    /// add to the distinct-nontrivial count cases that were counted without hashing (bitmaps etc.)
    pub fn add_nontrivial_counted(&self, n: u64) {
        self.state.lock().unwrap().nontrivial_extra += n;
    }
    pub fn elapsed(&self) -> f64 {
        self.start.elapsed().as_secs_f64()
    }
    pub fn time_left(&self) -> f64 {
        self.cli.time_cap_s - self.elapsed()
    }

    /// Runs generator `gen` over case indices `0..n` on all cores. `f(ctx, index, rng)` builds
    /// case `index` (a pure function of seed, gen, index), executes the real code under the
    /// monitors and judges it. `share` is the fraction of the remaining time budget this
    /// generator may use before generation (not judgement) stops.
    pub fn generate<F>(&self, gen: &'static str, n: u64, exhaustive: bool, share: f64, f: F)
    where
        F: Fn(&mut Ctx, u64, &mut Rng) + Sync,
    {
        let t0 = Instant::now();
        if let Some(r) = &self.cli.replay {
            if r.gen != gen {
                return;
            }
            self.replay_hit.store(true, Ordering::SeqCst);
            let mut ctx = Ctx::new(self, gen);
            ctx.sample_budget = 1;
            ctx.index = r.index;
            let mut rng = Rng::for_case(self.cli.seed, gen, r.index);
            let finished = AtomicBool::new(false);
            std::thread::scope(|s| {
                s.spawn(|| {
                    let t = Instant::now();
                    while !finished.load(Ordering::Relaxed) {
                        std::thread::sleep(std::time::Duration::from_millis(100));
                        if t.elapsed().as_secs() > watchdog_secs() {
                            self.watchdog_fired(gen, r.index, watchdog_secs());
                        }
                    }
                });
                match mon::guard(|| f(&mut ctx, r.index, &mut rng)) {
                    Ok(()) => {}
                    Err(pi) => ctx.panic(&pi, || format!("gen={} index={}", gen, r.index)),
                }
                finished.store(true, Ordering::Relaxed);
            });
            ctx.merge();
            return;
        }
        let deadline = (self.time_left() * share).max(1.0);
        let next = AtomicU64::new(0);
        let done = AtomicU64::new(0);
        let capped = AtomicBool::new(false);
        let evals_before = self.state.lock().unwrap().evaluations;
        let jobs = self.cli.jobs.min(n.max(1) as usize).max(1);
        let chunk = (n / (jobs as u64 * 16)).clamp(1, 4096);
        // wall-clock watchdog: (index of the case a worker is in, tick at which it entered it)
        let slots: Vec<(AtomicU64, AtomicU64)> = (0..jobs).map(|_| (AtomicU64::new(u64::MAX), AtomicU64::new(0))).collect();
        let active = AtomicU64::new(jobs as u64);
        let tick = AtomicU64::new(0);
        let slowest = AtomicU64::new(0);
        std::thread::scope(|s| {
            s.spawn(|| {
                let limit = watchdog_secs() * 10;
                while active.load(Ordering::Relaxed) > 0 {
                    std::thread::sleep(std::time::Duration::from_millis(100));
                    let now = tick.fetch_add(1, Ordering::Relaxed) + 1;
                    for slot in &slots {
                        let idx = slot.0.load(Ordering::Relaxed);
                        if idx != u64::MAX && now.saturating_sub(slot.1.load(Ordering::Relaxed)) > limit && slot.0.load(Ordering::Relaxed) == idx {
                            self.watchdog_fired(gen, idx, limit / 10);
                        }
                    }
                }
            });
            for w in 0..jobs {
                let (slots, active, tick, slowest, next, done, capped, f) = (&slots, &active, &tick, &slowest, &next, &done, &capped, &f);
                s.spawn(move || {
                    let mut ctx = Ctx::new(self, gen);
                    loop {
                        if self.stop.load(Ordering::Relaxed) {
                            break;
                        }
                        if t0.elapsed().as_secs_f64() > deadline {
                            capped.store(true, Ordering::Relaxed);
                            break;
                        }
                        let lo = next.fetch_add(chunk, Ordering::Relaxed);
                        if lo >= n {
                            break;
                        }
                        let hi = (lo + chunk).min(n);
                        for idx in lo..hi {
                            ctx.index = idx;
                            // keep the first cases of the run and a few later ones as samples
                            ctx.sample_budget = if idx < 2 || (idx == n / 2) || idx + 1 == n { 1 } else { 0 };
                            let mut rng = Rng::for_case(self.cli.seed, gen, idx);
                            let entered = tick.load(Ordering::Relaxed);
                            slots[w].1.store(entered, Ordering::Relaxed);
                            slots[w].0.store(idx, Ordering::Relaxed);
                            match mon::guard(|| f(&mut ctx, idx, &mut rng)) {
                                Ok(()) => {}
                                Err(pi) => ctx.panic(&pi, || format!("gen={} index={} (panic escaped the case closure)", gen, idx)),
                            }
                            slots[w].0.store(u64::MAX, Ordering::Relaxed);
                            let took = tick.load(Ordering::Relaxed) - entered;
                            if took > 0 {
                                slowest.fetch_max(took, Ordering::Relaxed);
                            }
                        }
                        done.fetch_add(hi - lo, Ordering::Relaxed);
                    }
                    ctx.merge();
                    active.fetch_sub(1, Ordering::Relaxed);
                });
            }
        });
        {
            let mut st = self.state.lock().unwrap();
            let e = st.maxima.entry("slowest_case_tenths_of_a_second".to_string()).or_insert(0);
            *e = (*e).max(slowest.load(Ordering::Relaxed));
        }
        let mut st = self.state.lock().unwrap();
        let evals = st.evaluations - evals_before;
        let d = done.load(Ordering::Relaxed);
        st.gens.push(GenStat {
            name: gen.to_string(),
            planned: n,
            done: d,
            evals,
            time_capped: capped.load(Ordering::Relaxed),
            exhaustive: exhaustive && d == n,
            wall_s: t0.elapsed().as_secs_f64(),
        });
    }

    /// A case did not return within the watchdog limit. For C08 (whose statement includes
    /// termination) that is a violation; for every other property the run is inconclusive.
    /// The hung worker cannot be stopped, so the process reports what it has and exits.
    fn watchdog_fired(&self, gen: &str, idx: u64, secs: u64) -> ! {
        let msg = format!("case gen={} index={} seed={} did not return within {} s of wall-clock time (cases of this generator normally take milliseconds); the code under test probably does not terminate on it", gen, idx, self.cli.seed, secs);
        {
            let mut st = self.state.lock().unwrap();
            if self.id == "c08" {
                let sig = format!("non-termination|{}", gen);
                st.viol.insert(sig.clone(), Viol { sig, gen: gen.to_string(), index: idx, case: format!("gen={} index={} (the case never returned, so its description is not available; replaying it re-creates the input)", gen, idx), detail: msg, count: 1 });
            } else {
                st.harness_errors.push(format!("watchdog: {}", msg));
            }
        }
        let code = self.finish();
        std::process::exit(code);
    }

    /// Single-threaded section with a context (for sweeps that parallelise themselves).
    pub fn section<F>(&self, gen: &'static str, f: F)
    where
        F: FnOnce(&mut Ctx),
    {
        if let Some(r) = &self.cli.replay {
            if r.gen != gen {
                return;
            }
            self.replay_hit.store(true, Ordering::SeqCst);
        }
        let t0 = Instant::now();
        let evals_before = self.state.lock().unwrap().evaluations;
        let mut ctx = Ctx::new(self, gen);
        ctx.sample_budget = 3;
        match mon::guard(|| f(&mut ctx)) {
            Ok(()) => {}
            Err(pi) => ctx.panic(&pi, || format!("section {}", gen)),
        }
        ctx.merge();
        let mut st = self.state.lock().unwrap();
        let evals = st.evaluations - evals_before;
        st.gens.push(GenStat {
            name: gen.to_string(),
            planned: evals,
            done: evals,
            evals,
            time_capped: false,
            exhaustive: false,
            wall_s: t0.elapsed().as_secs_f64(),
        });
    }

    /// Writes evidence / replays, prints the verdict lines and returns the process exit code.
    pub fn finish(&self) -> i32 {
        let st = self.state.lock().unwrap();
        let wall = self.elapsed();
        let id_u = self.id.to_uppercase();

        if self.cli.replay.is_some() {
            if !self.replay_hit.load(Ordering::SeqCst) {
                println!("INCONCLUSIVE property={} reason=replay generator not found", id_u);
                return 2;
            }
            let mut code = 0;
            for v in st.viol.values() {
                println!("replay reproduced: signature={}\ncase: {}\n{}", v.sig, v.case, v.detail);
                if let Some(k) = self.known.iter().find(|k| k.signature == v.sig) {
                    println!("KNOWN-FINDING: property={} {}", id_u, k.what);
                } else {
                    println!("VIOLATION property={} replay={}", id_u, self.cli.replay.as_ref().map(|r| r.path.as_str()).unwrap_or("<replayed>"));
                    code = 1;
                }
            }
            for e in &st.harness_errors {
                println!("harness error: {}", e);
                code = code.max(2);
            }
            if st.viol.is_empty() && st.harness_errors.is_empty() {
                println!("replay: no violation observed ({} evaluations)", st.evaluations);
            }
            return code;
        }

        // classify violations
        let mut unlisted: Vec<&Viol> = Vec::new();
        let mut known_hits: Vec<(&Known, &Viol)> = Vec::new();
        for v in st.viol.values() {
            match self.known.iter().find(|k| k.signature == v.sig) {
                Some(k) => known_hits.push((k, v)),
                None => unlisted.push(v),
            }
        }

        let replay_dir = self.cli.out.join("replays");
        let _ = fs::create_dir_all(&replay_dir);
        let mut lines = Vec::new();
        for v in &unlisted {
            let path = replay_dir.join(format!("{}-{:016x}.txt", self.id, hash_str(&v.sig)));
            let text = format!(
                "property={}\ngen={}\nindex={}\nseed={}\ntier={}\nfeatures={}\nsignature={}\noccurrences={}\ncase: {}\n--- diagnosis ---\n{}\n",
                id_u,
                v.gen,
                v.index,
                self.cli.seed,
                if self.quick() { "quick" } else { "thorough" },
                if cfg!(feature = "fixed_point") { "fixed_point" } else { "default" },
                v.sig,
                v.count,
                v.case,
                v.detail
            );
            let _ = fs::write(&path, text);
            lines.push(format!("VIOLATION property={} replay={}", id_u, path.display()));
            eprintln!("[{}] violation signature={} occurrences={} case: {}\n{}", self.id, v.sig, v.count, v.case, v.detail);
        }
        let mut seen_known = HashSet::new();
        for (k, _v) in &known_hits {
            if seen_known.insert(k.signature.clone()) {
                lines.push(format!("KNOWN-FINDING: property={} {}", id_u, k.what));
            }
        }

        // inconclusive conditions
        let mut inconclusive: Vec<String> = Vec::new();
        for e in &st.harness_errors {
            inconclusive.push(format!("harness error: {}", e));
        }
        let distinct_nontrivial = st.nontrivial.len() as u64 + st.nontrivial_extra;
        if st.evaluations == 0 {
            inconclusive.push("no oracle evaluation happened".into());
        }
        if distinct_nontrivial < 2 {
            inconclusive.push("fewer than 2 distinct non-trivial cases".into());
        }
        for g in &st.gens {
            if g.evals == 0 && g.planned > 0 {
                inconclusive.push(format!("generator {} observed nothing", g.name));
            }
        }

        // evidence
        let mut cov = J::obj();
        cov.set("evaluations", J::UInt(st.evaluations));
        cov.set("distinct_nontrivial", J::UInt(distinct_nontrivial));
        cov.set("rule", J::s(self.rule.lock().unwrap().clone()));
        let samples: Vec<J> = st.samples.iter().take(24).cloned().collect();
        cov.set("samples", J::Arr(if samples.is_empty() { vec![J::s("<none>")] } else { samples }));
        let all_exh = !st.gens.is_empty() && st.gens.iter().all(|g| g.exhaustive);
        cov.set("exhaustive", J::Bool(all_exh));
        if st.nontrivial_saturated {
            cov.set("distinct_nontrivial_is_lower_bound", J::Bool(true));
        }
        cov.set(
            "generators",
            J::Arr(
                st.gens
                    .iter()
                    .map(|g| {
                        crate::jobj! {
                            "name" => g.name.clone(), "planned_cases" => g.planned, "cases_done" => g.done,
                            "evaluations" => g.evals, "time_capped" => g.time_capped,
                            "exhaustive" => g.exhaustive, "wall_s" => (g.wall_s * 100.0).round() / 100.0
                        }
                    })
                    .collect(),
            ),
        );
        let mut obs = J::obj();
        for (k, v) in &st.counters {
            obs.set(k, J::UInt(*v));
        }
        for (k, v) in &st.maxima {
            obs.set(&format!("max_{}", k), J::UInt(*v));
        }
        for (k, v) in &st.distinct {
            obs.set(&format!("distinct_{}", k), J::UInt(v.len() as u64));
        }
        cov.set("observed", obs);
        cov.set("features", J::s(if cfg!(feature = "fixed_point") { "fixed_point" } else { "default" }));
        cov.set(
            "known_findings_matched",
            J::Arr(
                known_hits
                    .iter()
                    .map(|(k, v)| crate::jobj! {"signature" => k.signature.clone(), "occurrences" => v.count, "first_case" => v.case.clone()})
                    .collect(),
            ),
        );
        cov.set(
            "unlisted_violation_signatures",
            J::Arr(unlisted.iter().map(|v| crate::jobj! {"signature" => v.sig.clone(), "occurrences" => v.count}).collect()),
        );
        if !inconclusive.is_empty() {
            cov.set("inconclusive", J::Arr(inconclusive.iter().map(|s| J::s(s.clone())).collect()));
        }
        if !st.notes.is_empty() {
            cov.set("notes", J::Arr(st.notes.iter().map(|s| J::s(s.clone())).collect()));
        }
        for (k, v) in &st.extra {
            cov.set(k, v.clone());
        }
        for p in &self.cli.embed {
            if let Ok(t) = fs::read_to_string(p) {
                let stem = p.file_stem().and_then(|s| s.to_str()).unwrap_or("part");
                let name = stem.rsplit('-').next().unwrap_or(stem).to_string();
                cov.set(&format!("part_{}", name), J::Raw(t));
            }
        }
        let ev = crate::jobj! {
            "property_id" => id_u.clone(),
            "tier" => if self.quick() { "quick" } else { "thorough" },
            "seed" => J::Int(self.cli.seed as i64),
            "level" => self.level,
            "coverage" => cov,
            "assumptions" => J::Arr(self.assumptions.lock().unwrap().iter().map(|s| J::s(s.clone())).collect()),
            "wall_s" => (wall * 100.0).round() / 100.0,
            "violations" => J::Int(unlisted.len() as i64)
        };
        let ev_dir = self.cli.out.join("evidence");
        let _ = fs::create_dir_all(&ev_dir);
        let path = match &self.cli.part {
            Some(p) => ev_dir.join(format!(".part-{}-{}.json", id_u, p)),
            None => ev_dir.join(format!("{}.json", id_u)),
        };
        if let Err(e) = fs::write(&path, ev.to_text() + "\n") {
            inconclusive.push(format!("cannot write evidence {}: {}", path.display(), e));
        }

        for l in &lines {
            println!("{}", l);
        }
        println!(
            "[{}] tier={} seed={} features={} evaluations={} distinct_nontrivial={} unlisted_violations={} known_findings={} wall={:.1}s",
            id_u,
            if self.quick() { "quick" } else { "thorough" },
            self.cli.seed,
            if cfg!(feature = "fixed_point") { "fixed_point" } else { "default" },
            st.evaluations,
            distinct_nontrivial,
            unlisted.len(),
            seen_known.len(),
            wall
        );
        if !unlisted.is_empty() {
            return 1;
        }
        if !inconclusive.is_empty() {
            for r in &inconclusive {
                println!("INCONCLUSIVE property={} reason={}", id_u, r);
            }
            return 2;
        }
        0
    }
}

fn load_known(path: &Path, id: &str) -> Vec<Known> {
    let mut out = Vec::new();
    let Ok(text) = fs::read_to_string(path) else {
        return out;
    };
    for l in text.lines() {
        let l = l.trim();
        // open: property=<id> signature=<sig> :: <what fails>
        let Some(rest) = l.strip_prefix("open:") else {
            continue;
        };
        let rest = rest.trim();
        let Some(rest) = rest.strip_prefix("property=") else {
            continue;
        };
        let (pid, rest) = rest.split_once(' ').unwrap_or((rest, ""));
        if !pid.eq_ignore_ascii_case(id) {
            continue;
        }
        let rest = rest.trim();
        let Some(rest) = rest.strip_prefix("signature=") else {
            continue;
        };
        let (sig, what) = rest.split_once(" :: ").unwrap_or((rest, ""));
        out.push(Known {
            property: pid.to_string(),
            signature: sig.trim().to_string(),
            what: what.trim().to_string(),
        });
    }
    let _ = out.iter().map(|k| &k.property).count();
    out
}

/// Convenience for binaries: run `body`, finish, exit.
pub fn main_with(id: &'static str, level: &'static str, body: impl FnOnce(&Run)) -> ! {
    let run = Run::new(id, level);
    let r = std::panic::catch_unwind(std::panic::AssertUnwindSafe(|| body(&run)));
    if r.is_err() {
        println!("INCONCLUSIVE property={} reason=harness panic outside a monitored region", id.to_uppercase());
        std::process::exit(2);
    }
    let code = run.finish();
    std::process::exit(code)
}
