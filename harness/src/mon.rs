//! Panic monitor (hook + catch_unwind with attribution) and allocation monitor (counting global
//! allocator with a thread-local armed flag).
use std::{
    alloc::{GlobalAlloc, Layout, System},
    cell::{Cell, RefCell},
    collections::HashMap,
    panic::{self, AssertUnwindSafe},
    sync::{Mutex, Once},
};

// ---------------------------------------------------------------- allocation monitor

pub struct CountingAlloc;

thread_local! {
    static ARMED: Cell<bool> = const { Cell::new(false) };
    static ALLOCS: Cell<u64> = const { Cell::new(0) };
}

unsafe impl GlobalAlloc for CountingAlloc {
    unsafe fn alloc(&self, layout: Layout) -> *mut u8 {
        let _ = ARMED.try_with(|a| {
            if a.get() {
                let _ = ALLOCS.try_with(|c| c.set(c.get() + 1));
            }
        });
        System.alloc(layout)
    }
    unsafe fn dealloc(&self, ptr: *mut u8, layout: Layout) {
        System.dealloc(ptr, layout)
    }
    unsafe fn alloc_zeroed(&self, layout: Layout) -> *mut u8 {
        let _ = ARMED.try_with(|a| {
            if a.get() {
                let _ = ALLOCS.try_with(|c| c.set(c.get() + 1));
            }
        });
        System.alloc_zeroed(layout)
    }
    unsafe fn realloc(&self, ptr: *mut u8, layout: Layout, new_size: usize) -> *mut u8 {
        let _ = ARMED.try_with(|a| {
            if a.get() {
                let _ = ALLOCS.try_with(|c| c.set(c.get() + 1));
            }
        });
        System.realloc(ptr, layout, new_size)
    }
}

#[global_allocator]
static GLOBAL: CountingAlloc = CountingAlloc;

/// Runs `f` with the allocation counter armed on this thread; returns (result, allocations seen).
/// `f` must not allocate in harness code (use pre-allocated recorders).
pub fn count_allocs<T>(f: impl FnOnce() -> T) -> (T, u64) {
    let before = ALLOCS.with(|c| c.get());
    ARMED.with(|a| a.set(true));
    let r = f();
    ARMED.with(|a| a.set(false));
    let after = ALLOCS.with(|c| c.get());
    (r, after - before)
}

pub fn disarm_allocs() {
    let _ = ARMED.try_with(|a| a.set(false));
}

// ---------------------------------------------------------------- panic monitor

#[derive(Clone, Copy, Debug, PartialEq, Eq)]
pub enum Origin {
    /// raised by (or attributed to) code of the repository under test
    Repo,
    /// raised by harness code (a bug of the machinery: inconclusive, never a finding)
    Harness,
    /// could not be attributed
    Unknown,
}

#[derive(Clone, Debug)]
pub struct PanicInfo {
    pub msg: String,
    pub file: String,
    pub line: u32,
    pub col: u32,
    pub origin: Origin,
    /// `file:line` of the topmost repository frame when the panic location itself is in std/deps
    pub repo_frame: Option<(String, u32)>,
}

thread_local! {
    static DEPTH: Cell<u32> = const { Cell::new(0) };
    static LAST: RefCell<Option<PanicInfo>> = const { RefCell::new(None) };
}

static INSTALL: Once = Once::new();
#[allow(clippy::type_complexity)]
static BT_BUDGET: Mutex<Option<HashMap<String, (u32, Option<(String, u32, Origin)>)>>> = Mutex::new(None);

const HARNESS_DIR: &str = env!("CARGO_MANIFEST_DIR");

fn classify_path(p: &str) -> Origin {
    // The harness is the root package of its own workspace, so rustc sees its files by relative
    // path ("src/bin/c01.rs"); the repository is a path dependency and is seen by absolute path.
    if p.starts_with(HARNESS_DIR) || (!p.starts_with('/') && p.starts_with("src/")) {
        Origin::Harness
    } else if p.contains("/rustc/")
        || p.contains("/rustlib/")
        || p.contains("/.cargo/")
        || p.contains("/registry/")
        || p.starts_with("library/")
    {
        Origin::Unknown
    } else if p.starts_with('/') && p.contains("/src/") {
        Origin::Repo
    } else {
        Origin::Unknown
    }
}

/// Path relative to the repository root (root-independent, so scratch copies give equal strings).
pub fn repo_rel(p: &str) -> String {
    if let Some(i) = p.rfind("/core/src/") {
        return p[i + 1..].to_string();
    }
    if let Some(i) = p.rfind("/src/") {
        return p[i + 1..].to_string();
    }
    p.to_string()
}

fn first_repo_frame(bt: &str) -> Option<(String, u32, Origin)> {
    // Backtrace Display format: "  N: symbol\n             at path:line:col"
    for l in bt.lines() {
        let l = l.trim_start();
        if let Some(rest) = l.strip_prefix("at ") {
            let mut parts = rest.rsplitn(3, ':');
            let _col = parts.next();
            let line = parts.next().and_then(|x| x.parse::<u32>().ok());
            let path = parts.next();
            if let (Some(line), Some(path)) = (line, path) {
                match classify_path(path) {
                    Origin::Repo => return Some((path.to_string(), line, Origin::Repo)),
                    Origin::Harness => {
                        // the panic machinery itself lives in mon.rs; skip our own hook frames
                        if path.ends_with("src/mon.rs") {
                            continue;
                        }
                        return Some((path.to_string(), line, Origin::Harness));
                    }
                    Origin::Unknown => {}
                }
            }
        }
    }
    None
}

pub fn install() {
    INSTALL.call_once(|| {
        let prev = panic::take_hook();
        panic::set_hook(Box::new(move |info| {
            disarm_allocs();
            let depth = DEPTH.try_with(|d| d.get()).unwrap_or(0);
            if depth == 0 {
                // not inside a monitored region: a harness bug. Let the default hook print it.
                prev(info);
                return;
            }
            let msg = if let Some(s) = info.payload().downcast_ref::<&str>() {
                s.to_string()
            } else if let Some(s) = info.payload().downcast_ref::<String>() {
                s.clone()
            } else {
                "<non-string panic payload>".to_string()
            };
            let (file, line, col) = info
                .location()
                .map(|l| (l.file().to_string(), l.line(), l.column()))
                .unwrap_or_else(|| ("<unknown>".to_string(), 0, 0));
            let mut origin = classify_path(&file);
            let mut repo_frame = None;
            if origin == Origin::Unknown {
                // Location is inside std or a dependency: use the backtrace (bounded number of
                // captures per location; they cost milliseconds).
                let key = format!("{}:{}", file, line);
                let (take, cached) = {
                    let mut g = BT_BUDGET.lock().unwrap_or_else(|e| e.into_inner());
                    let m = g.get_or_insert_with(HashMap::new);
                    let e = m.entry(key.clone()).or_insert((0u32, None));
                    e.0 += 1;
                    (e.0 <= 3000, e.1.clone())
                };
                if take {
                    let bt = std::backtrace::Backtrace::force_capture().to_string();
                    if let Some((p, l, o)) = first_repo_frame(&bt) {
                        origin = o;
                        repo_frame = Some((p.clone(), l));
                        let mut g = BT_BUDGET.lock().unwrap_or_else(|e| e.into_inner());
                        if let Some(e) = g.get_or_insert_with(HashMap::new).get_mut(&key) {
                            e.1 = Some((p, l, o));
                        }
                    }
                } else if let Some((p, l, o)) = cached {
                    // budget for this std location used up: reuse the last attribution (the
                    // occurrence is counted under that signature; the first witnesses are exact)
                    origin = o;
                    repo_frame = Some((p, l));
                }
            }
            let pi = PanicInfo {
                msg,
                file,
                line,
                col,
                origin,
                repo_frame,
            };
            let _ = LAST.try_with(|l| *l.borrow_mut() = Some(pi));
        }));
    });
}

/// Runs `f`, catching any panic and returning its attribution.
pub fn guard<T>(f: impl FnOnce() -> T) -> Result<T, PanicInfo> {
    install();
    DEPTH.with(|d| d.set(d.get() + 1));
    let r = panic::catch_unwind(AssertUnwindSafe(f));
    DEPTH.with(|d| d.set(d.get() - 1));
    disarm_allocs();
    match r {
        Ok(v) => Ok(v),
        Err(_) => {
            let pi = LAST.with(|l| l.borrow_mut().take()).unwrap_or(PanicInfo {
                msg: "<panic without info>".into(),
                file: "<unknown>".into(),
                line: 0,
                col: 0,
                origin: Origin::Unknown,
                repo_frame: None,
            });
            Err(pi)
        }
    }
}

static SRC_CACHE: Mutex<Option<HashMap<String, Vec<String>>>> = Mutex::new(None);

/// Whitespace-normalised text of a source line (empty when unreadable).
pub fn source_line(file: &str, line: u32) -> String {
    let mut g = SRC_CACHE.lock().unwrap_or_else(|e| e.into_inner());
    let m = g.get_or_insert_with(HashMap::new);
    let lines = m.entry(file.to_string()).or_insert_with(|| {
        std::fs::read_to_string(file)
            .map(|t| t.lines().map(|l| l.to_string()).collect())
            .unwrap_or_default()
    });
    lines
        .get(line.saturating_sub(1) as usize)
        .map(|l| l.split_whitespace().collect::<Vec<_>>().join(" "))
        .unwrap_or_default()
}

fn normalise_msg(m: &str) -> String {
    // numbers in messages ("the len is 3 but the index is 5") vary per input
    let mut out = String::new();
    let mut in_num = false;
    for c in m.chars() {
        if c.is_ascii_digit() {
            if !in_num {
                out.push('#');
            }
            in_num = true;
        } else {
            in_num = false;
            out.push(c);
        }
    }
    out.chars().take(120).collect()
}

impl PanicInfo {
    /// (file, line) of the repository source line this panic is attributed to
    pub fn site(&self) -> (String, u32) {
        if let Some((f, l)) = &self.repo_frame {
            (f.clone(), *l)
        } else {
            (self.file.clone(), self.line)
        }
    }
    /// Signature: robust against line shifts, sensitive to edits of the panicking line.
    pub fn signature(&self) -> String {
        let (f, l) = self.site();
        format!(
            "panic|{}|{}|{}",
            repo_rel(&f),
            normalise_msg(&self.msg),
            source_line(&f, l)
        )
    }
    pub fn describe(&self) -> String {
        let (f, l) = self.site();
        format!(
            "panic '{}' at {}:{}:{} (attributed to {}:{}, origin {:?})",
            self.msg, self.file, self.line, self.col, f, l, self.origin
        )
    }
}
