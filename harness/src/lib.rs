//! egmon — runtime-monitoring harness for embedded-graphics (see /verif/DESIGN.md).
pub mod json;
pub mod mon;
pub mod rng;
pub mod run;
pub mod target;
pub mod zoo;
pub mod geom;
pub mod adapters;
pub mod rawmodel;

pub mod fonts {
    include!(concat!(env!("OUT_DIR"), "/fonts.rs"));
}

pub use json::J;
pub use rng::Rng;
pub use run::{main_with, Ctx, Run, Tier};
