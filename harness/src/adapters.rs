//! Dynamic construction of adapter stacks (translated / cropped / clipped, depth <= 3) over any
//! parent target. Stacks are different types, so a visitor hands the finished target to its user.
use embedded_graphics::{draw_target::DrawTargetExt, prelude::*, primitives::Rectangle};

#[derive(Clone, Copy, Debug, PartialEq, Eq)]
pub enum Ad {
    Tr(Point),
    Cr(Rectangle),
    Cl(Rectangle),
}

impl Ad {
    pub fn text(&self) -> String {
        match self {
            Ad::Tr(o) => format!("translated(({},{}))", o.x, o.y),
            Ad::Cr(a) => format!("cropped({:?})", crate::target::rt(a)),
            Ad::Cl(a) => format!("clipped({:?})", crate::target::rt(a)),
        }
    }
}

pub fn stack_text(stack: &[Ad]) -> String {
    if stack.is_empty() {
        "direct".to_string()
    } else {
        // innermost (applied to the parent first) .. outermost
        stack.iter().map(|a| a.text()).collect::<Vec<_>>().join(".")
    }
}

pub trait TargetUser<C: PixelColor, E> {
    fn use_target<T: DrawTarget<Color = C, Error = E>>(&mut self, t: &mut T);
}

fn level0<C: PixelColor, E, P: DrawTarget<Color = C, Error = E>, U: TargetUser<C, E>>(_stack: &[Ad], parent: &mut P, u: &mut U) {
    u.use_target(parent)
}

macro_rules! level {
    ($name:ident, $next:ident) => {
        fn $name<C: PixelColor, E, P: DrawTarget<Color = C, Error = E>, U: TargetUser<C, E>>(stack: &[Ad], parent: &mut P, u: &mut U) {
            match stack.split_first() {
                None => u.use_target(parent),
                Some((Ad::Tr(o), rest)) => $next(rest, &mut parent.translated(*o), u),
                Some((Ad::Cr(a), rest)) => $next(rest, &mut parent.cropped(a), u),
                Some((Ad::Cl(a), rest)) => $next(rest, &mut parent.clipped(a), u),
            }
        }
    };
}
level!(level1, level0);
level!(level2, level1);
level!(level3, level2);

/// `stack[0]` wraps the parent, the last element is what the user sees. At most 3 levels.
pub fn with_stack<C: PixelColor, E, P: DrawTarget<Color = C, Error = E>, U: TargetUser<C, E>>(stack: &[Ad], parent: &mut P, u: &mut U) {
    assert!(stack.len() <= 3, "adapter stacks deeper than 3 are not instantiated");
    level3(stack, parent, u)
}
