//! Small deterministic PRNG (xoshiro256** seeded through splitmix64). Every generated case is a
//! pure function of (VERIF_SEED, generator name, case index), which is what makes replay work.

#[inline]
pub fn splitmix(x: &mut u64) -> u64 {
    *x = x.wrapping_add(0x9E37_79B9_7F4A_7C15);
    let mut z = *x;
    z = (z ^ (z >> 30)).wrapping_mul(0xBF58_476D_1CE4_E5B9);
    z = (z ^ (z >> 27)).wrapping_mul(0x94D0_49BB_1331_11EB);
    z ^ (z >> 31)
}

#[inline]
pub fn mix(a: u64, b: u64) -> u64 {
    let mut x = a ^ b.wrapping_mul(0xD6E8_FEB8_6659_FD93).rotate_left(23);
    splitmix(&mut x)
}

pub fn hash_str(s: &str) -> u64 {
    let mut h = 0xcbf2_9ce4_8422_2325u64;
    for b in s.bytes() {
        h ^= b as u64;
        h = h.wrapping_mul(0x0000_0100_0000_01B3);
    }
    mix(h, s.len() as u64)
}

#[derive(Clone, Debug)]
pub struct Rng {
    s: [u64; 4],
}

impl Rng {
    pub fn new(seed: u64) -> Self {
        let mut x = seed;
        let s = [
            splitmix(&mut x),
            splitmix(&mut x),
            splitmix(&mut x),
            splitmix(&mut x),
        ];
        Rng { s }
    }

    /// PRNG for case `index` of generator `gen` under `seed`.
    pub fn for_case(seed: u64, gen: &str, index: u64) -> Self {
        Rng::new(mix(mix(seed, hash_str(gen)), index))
    }

    #[inline]
    pub fn next_u64(&mut self) -> u64 {
        let result = self.s[1].wrapping_mul(5).rotate_left(7).wrapping_mul(9);
        let t = self.s[1] << 17;
        self.s[2] ^= self.s[0];
        self.s[3] ^= self.s[1];
        self.s[1] ^= self.s[2];
        self.s[0] ^= self.s[3];
        self.s[2] ^= t;
        self.s[3] = self.s[3].rotate_left(45);
        result
    }

    #[inline]
    pub fn next_u32(&mut self) -> u32 {
        (self.next_u64() >> 32) as u32
    }

    /// uniform in 0..n (n > 0)
    #[inline]
    pub fn below(&mut self, n: u64) -> u64 {
        debug_assert!(n > 0);
        ((self.next_u64() as u128 * n as u128) >> 64) as u64
    }

    /// uniform in lo..=hi
    #[inline]
    pub fn range(&mut self, lo: i64, hi: i64) -> i64 {
        debug_assert!(lo <= hi);
        lo + self.below((hi - lo) as u64 + 1) as i64
    }

    #[inline]
    pub fn i32r(&mut self, lo: i32, hi: i32) -> i32 {
        self.range(lo as i64, hi as i64) as i32
    }

    #[inline]
    pub fn u32r(&mut self, lo: u32, hi: u32) -> u32 {
        self.range(lo as i64, hi as i64) as u32
    }

    #[inline]
    pub fn usizer(&mut self, lo: usize, hi: usize) -> usize {
        self.range(lo as i64, hi as i64) as usize
    }

    /// true with probability num/den
    #[inline]
    pub fn chance(&mut self, num: u64, den: u64) -> bool {
        self.below(den) < num
    }

    #[inline]
    /// Fisher-Yates shuffle
    pub fn shuffle<T>(&mut self, xs: &mut [T]) {
        for i in (1..xs.len()).rev() {
            let j = self.below(i as u64 + 1) as usize;
            xs.swap(i, j);
        }
    }
    pub fn pick<'a, T>(&mut self, xs: &'a [T]) -> &'a T {
        &xs[self.below(xs.len() as u64) as usize]
    }

    pub fn f32r(&mut self, lo: f32, hi: f32) -> f32 {
        let u = (self.next_u64() >> 40) as f32 / (1u64 << 24) as f32;
        lo + (hi - lo) * u
    }

    pub fn bytes(&mut self, n: usize) -> Vec<u8> {
        let mut v = Vec::with_capacity(n);
        while v.len() < n {
            let x = self.next_u64().to_le_bytes();
            for b in x {
                if v.len() < n {
                    v.push(b);
                }
            }
        }
        v
    }

    /// Boundary-biased display-scale magnitude in 0..=max.
    pub fn biased_u32(&mut self, max: u32) -> u32 {
        const B: [u32; 14] = [0, 1, 2, 3, 63, 64, 65, 240, 255, 256, 257, 320, 480, 1024];
        let v = match self.below(10) {
            0..=4 => {
                let b = *self.pick(&B);
                let j = self.i32r(-2, 2);
                (b as i64 + j as i64).max(0) as u32
            }
            5..=6 => self.u32r(0, 16.min(max)),
            _ => self.u32r(0, max),
        };
        v.min(max)
    }

    /// Boundary-biased coordinate in -max..=max
    pub fn biased_i32(&mut self, max: i32) -> i32 {
        let m = self.biased_u32(max as u32) as i32;
        if self.chance(1, 2) {
            -m
        } else {
            m
        }
    }
}
