//! Recording draw targets: the event log at the public `DrawTarget` boundary.
//!
//! * `IterTarget`  implements only `draw_iter` (+ `Dimensions`) and inherits the trait defaults.
//! * `NativeTarget` implements `fill_contiguous`, `fill_solid` and `clear` natively with their
//!   documented meaning, written independently of the library's `Rectangle` helpers; its
//!   `fill_contiguous` drains the colour iterator completely and records how many colours came.
//! * both can fail the k-th call (fault injection) with a unique error value.
use embedded_graphics::{
    pixelcolor::raw::RawData,
    prelude::*,
    primitives::Rectangle,
    Pixel,
};
use std::{
    collections::HashMap,
    fmt::Debug,
    hash::{BuildHasherDefault, Hasher},
};

use crate::rng::mix;

// ---------------------------------------------------------------- colours as u32

pub trait Col: PixelColor + Debug + Send + Sync + 'static {
    fn to_u32(self) -> u32;
    fn from_u32(v: u32) -> Self;
    fn bits() -> u32;
    fn name() -> &'static str {
        let n = core::any::type_name::<Self>();
        n.rsplit("::").next().unwrap_or(n)
    }
    /// a colour for "case colour index" i that is never equal for different small i where possible
    fn nth(i: u32) -> Self {
        let bits = Self::bits();
        if bits >= 32 {
            Self::from_u32(i.wrapping_mul(0x9E37_79B1) | 1)
        } else {
            let m = (1u32 << bits) - 1;
            if bits <= 4 {
                Self::from_u32(i & m)
            } else {
                // spread, but keep distinct for small i
                Self::from_u32((i.wrapping_mul(0x9E37_79B1) >> (32 - bits)) & m)
            }
        }
    }
}

impl<C> Col for C
where
    C: PixelColor + Debug + Send + Sync + 'static,
    <C::Raw as RawData>::Storage: Into<u32>,
{
    fn to_u32(self) -> u32 {
        let raw: C::Raw = self.into();
        raw.into_inner().into()
    }
    fn from_u32(v: u32) -> Self {
        C::from(<C::Raw as RawData>::from_u32(v))
    }
    fn bits() -> u32 {
        <C::Raw as RawData>::BITS_PER_PIXEL as u32
    }
}

// ---------------------------------------------------------------- pixel map

#[derive(Default, Clone, Copy)]
pub struct PtHasher(u64);
impl Hasher for PtHasher {
    fn finish(&self) -> u64 {
        self.0
    }
    fn write(&mut self, bytes: &[u8]) {
        for b in bytes {
            self.0 = (self.0 ^ *b as u64).wrapping_mul(0x0000_0100_0000_01B3);
        }
    }
    fn write_i32(&mut self, i: i32) {
        self.0 = (self.0.rotate_left(32) ^ (i as u32 as u64)).wrapping_mul(0x9E37_79B9_7F4A_7C15);
    }
    fn write_u64(&mut self, i: u64) {
        self.0 = (self.0.rotate_left(29) ^ i).wrapping_mul(0x9E37_79B9_7F4A_7C15);
    }
    fn write_u32(&mut self, i: u32) {
        self.0 = (self.0.rotate_left(32) ^ (i as u64)).wrapping_mul(0x9E37_79B9_7F4A_7C15);
    }
    fn write_usize(&mut self, i: usize) {
        self.write_u64(i as u64)
    }
}
pub type FastMap<K, V> = HashMap<K, V, BuildHasherDefault<PtHasher>>;
pub type FastSet<K> = std::collections::HashSet<K, BuildHasherDefault<PtHasher>>;

/// Final colour per point. `background` is set by a native `clear` (covers the whole box).
#[derive(Clone, Debug, Default)]
pub struct PixMap {
    pub px: FastMap<(i32, i32), u32>,
    pub background: Option<u32>,
}

impl PixMap {
    pub fn new() -> Self {
        Self::default()
    }
    #[inline]
    pub fn set(&mut self, x: i32, y: i32, c: u32) {
        self.px.insert((x, y), c);
    }
    #[inline]
    pub fn get(&self, x: i32, y: i32) -> Option<u32> {
        self.px.get(&(x, y)).copied()
    }
    pub fn len(&self) -> usize {
        self.px.len()
    }
    pub fn is_empty(&self) -> bool {
        self.px.is_empty() && self.background.is_none()
    }
    /// order-independent content hash
    pub fn hash(&self) -> u64 {
        let mut h = 0u64;
        for (&(x, y), &c) in &self.px {
            h = h.wrapping_add(mix(mix(x as u32 as u64, y as u32 as u64), c as u64));
        }
        mix(h, self.background.map(|b| b as u64 + 1).unwrap_or(0))
    }
    pub fn shifted(&self, dx: i32, dy: i32) -> PixMap {
        let mut m = PixMap::new();
        m.background = self.background;
        for (&(x, y), &c) in &self.px {
            m.px.insert((x + dx, y + dy), c);
        }
        m
    }
    /// first point (in (y,x) order) at which the two maps differ: (x, y, self, other)
    pub fn first_diff(&self, other: &PixMap) -> Option<(i32, i32, Option<u32>, Option<u32>)> {
        let mut best: Option<(i32, i32, Option<u32>, Option<u32>)> = None;
        let mut consider = |x: i32, y: i32, a: Option<u32>, b: Option<u32>| {
            if a != b {
                let better = match best {
                    None => true,
                    Some((bx, by, _, _)) => (y, x) < (by, bx),
                };
                if better {
                    best = Some((x, y, a, b));
                }
            }
        };
        for (&(x, y), &c) in &self.px {
            consider(x, y, Some(c), other.get(x, y));
        }
        for (&(x, y), &c) in &other.px {
            if !self.px.contains_key(&(x, y)) {
                consider(x, y, None, Some(c));
            }
        }
        if best.is_none() && self.background != other.background {
            return Some((i32::MIN, i32::MIN, self.background, other.background));
        }
        best
    }
    pub fn same(&self, other: &PixMap) -> bool {
        self.background == other.background && self.px == other.px
    }
    pub fn diff_count(&self, other: &PixMap) -> usize {
        let mut n = 0;
        for (&(x, y), &c) in &self.px {
            if other.get(x, y) != Some(c) {
                n += 1;
            }
        }
        for (&(x, y), _) in &other.px {
            if !self.px.contains_key(&(x, y)) {
                n += 1;
            }
        }
        n
    }
    /// tight bounds (min_x, min_y, max_x, max_y) of the explicitly set points
    pub fn bounds(&self) -> Option<(i32, i32, i32, i32)> {
        let mut it = self.px.keys();
        let &(x0, y0) = it.next()?;
        let mut b = (x0, y0, x0, y0);
        for &(x, y) in it {
            b.0 = b.0.min(x);
            b.1 = b.1.min(y);
            b.2 = b.2.max(x);
            b.3 = b.3.max(y);
        }
        Some(b)
    }
    pub fn sorted(&self) -> Vec<(i32, i32, u32)> {
        let mut v: Vec<_> = self.px.iter().map(|(&(x, y), &c)| (x, y, c)).collect();
        v.sort_by_key(|&(x, y, _)| (y, x));
        v
    }
    /// small ASCII rendering for diagnoses
    pub fn ascii(&self, max: i32) -> String {
        let Some((x0, y0, x1, y1)) = self.bounds() else {
            return "<empty>".into();
        };
        if x1 - x0 > max || y1 - y0 > max {
            return format!("<{} px in ({},{})..({},{})>", self.len(), x0, y0, x1, y1);
        }
        let mut s = format!("origin ({},{})\n", x0, y0);
        for y in y0..=y1 {
            for x in x0..=x1 {
                s.push(match self.get(x, y) {
                    None => '.',
                    Some(c) => char::from_digit(c % 36, 36).unwrap_or('?'),
                });
            }
            s.push('\n');
        }
        s
    }
}

// ---------------------------------------------------------------- event log

#[derive(Clone, Copy, PartialEq, Eq, Debug, Hash)]
pub enum Kind {
    DrawIter = 0,
    FillContiguous = 1,
    FillSolid = 2,
    Clear = 3,
}

#[derive(Clone, Debug, PartialEq, Eq)]
pub struct Event {
    pub kind: Kind,
    /// area argument (x, y, w, h) for the fill calls
    pub area: Option<(i32, i32, u32, u32)>,
    /// pixels received (draw_iter) / colours pulled from the stream (fill_contiguous) / 1
    pub n: u64,
    /// hash of the complete ordered content of the call
    pub hash: u64,
    /// ordered content, kept only when `keep_pixels` is set
    pub px: Vec<(i32, i32, u32)>,
    /// colours of a fill_contiguous stream, kept only when `keep_pixels` is set
    pub colors: Vec<u32>,
    pub after_fault: bool,
}

#[derive(Clone, Copy, PartialEq, Eq, Debug)]
pub struct Fault {
    pub k: u64,
    pub nonce: u64,
}

pub const UNBOUNDED: i32 = 1 << 20;

pub fn rect(x: i32, y: i32, w: u32, h: u32) -> Rectangle {
    Rectangle::new(Point::new(x, y), Size::new(w, h))
}

pub fn unbounded_box() -> Rectangle {
    rect(-UNBOUNDED, -UNBOUNDED, 2 * UNBOUNDED as u32, 2 * UNBOUNDED as u32)
}

pub fn rt(r: &Rectangle) -> (i32, i32, u32, u32) {
    (r.top_left.x, r.top_left.y, r.size.width, r.size.height)
}

#[derive(Clone, Debug)]
pub struct Log {
    pub bbox: Rectangle,
    pub map: PixMap,
    /// every point a call mentioned, in or out of the box (only when `track_touched`)
    pub touched: FastSet<(i32, i32)>,
    pub track_touched: bool,
    pub out_of_box: u64,
    pub events: Vec<Event>,
    pub keep_pixels: bool,
    /// do not store pixels at all, only count (for display-scale fills)
    pub count_only: bool,
    pub pixels_set: u64,
    pub calls: u64,
    pub calls_by_kind: [u64; 4],
    pub fail_at: Option<Fault>,
    pub failed: bool,
    pub calls_after_fault: u64,
    /// native fill_contiguous skips the colours of points outside the target's box in bulk with
    /// `Iterator::nth` (like a driver that sets an address window) instead of pulling them one by
    /// one, and does not drain the rest of the stream
    pub skip_invisible_with_nth: bool,
    /// the target consumes the iterators it is given by internal iteration (`for_each`, i.e.
    /// `Iterator::fold`) instead of a `for` loop over `next()`, as an infallible driver written in
    /// iterator style does; a step budget cannot stop such a loop early (the per-case watchdog
    /// bounds it), items beyond the budget are ignored and flagged
    pub internal_iteration: bool,
    /// items (pixels/colours) consumed so far and the step budget
    pub items: u64,
    pub budget: u64,
    pub over_budget: bool,
}

impl Log {
    pub fn new(bbox: Rectangle) -> Self {
        Log {
            bbox,
            map: PixMap::new(),
            touched: FastSet::default(),
            track_touched: false,
            skip_invisible_with_nth: false,
            internal_iteration: false,
            out_of_box: 0,
            events: Vec::new(),
            keep_pixels: false,
            count_only: false,
            pixels_set: 0,
            calls: 0,
            calls_by_kind: [0; 4],
            fail_at: None,
            failed: false,
            calls_after_fault: 0,
            items: 0,
            budget: 50_000_000,
            over_budget: false,
        }
    }
    #[inline]
    fn in_box(&self, x: i32, y: i32) -> bool {
        let b = &self.bbox;
        let (x, y) = (x as i64, y as i64);
        let (bx, by) = (b.top_left.x as i64, b.top_left.y as i64);
        x >= bx && y >= by && x < bx + b.size.width as i64 && y < by + b.size.height as i64
    }
    #[inline]
    fn put(&mut self, x: i32, y: i32, c: u32) {
        if self.track_touched {
            self.touched.insert((x, y));
        }
        if self.in_box(x, y) {
            self.pixels_set += 1;
            if !self.count_only {
                self.map.set(x, y, c);
            }
        } else {
            self.out_of_box += 1;
        }
    }
    /// common entry bookkeeping; returns Err when this call is the injected fault
    fn enter(&mut self, kind: Kind) -> Result<(), Fault> {
        self.calls += 1;
        self.calls_by_kind[kind as usize] += 1;
        if self.failed {
            self.calls_after_fault += 1;
        }
        if let Some(f) = self.fail_at {
            if !self.failed && self.calls == f.k {
                self.failed = true;
                return Err(f);
            }
        }
        Ok(())
    }
    fn push_event(&mut self, kind: Kind, area: Option<(i32, i32, u32, u32)>, n: u64, hash: u64, px: Vec<(i32, i32, u32)>, colors: Vec<u32>) {
        let after_fault = self.failed;
        self.events.push(Event {
            kind,
            area,
            n,
            hash,
            px,
            colors,
            after_fault,
        });
    }

    pub fn do_draw_iter<C: Col, I: IntoIterator<Item = Pixel<C>>>(&mut self, pixels: I) -> Result<(), Fault> {
        self.enter(Kind::DrawIter)?;
        let mut n = 0u64;
        let mut h = 0x1234u64;
        let mut px = Vec::new();
        if self.internal_iteration {
            pixels.into_iter().for_each(|Pixel(p, c)| {
                if self.items >= self.budget {
                    self.over_budget = true;
                    return;
                }
                self.items += 1;
                n += 1;
                let c = c.to_u32();
                h = mix(h, mix(mix(p.x as u32 as u64, p.y as u32 as u64), c as u64));
                if self.keep_pixels {
                    px.push((p.x, p.y, c));
                }
                self.put(p.x, p.y, c);
            });
            self.push_event(Kind::DrawIter, None, n, h, px, Vec::new());
            return Ok(());
        }
        for Pixel(p, c) in pixels {
            if self.items >= self.budget {
                self.over_budget = true;
                break;
            }
            self.items += 1;
            n += 1;
            let c = c.to_u32();
            h = mix(h, mix(mix(p.x as u32 as u64, p.y as u32 as u64), c as u64));
            if self.keep_pixels {
                px.push((p.x, p.y, c));
            }
            self.put(p.x, p.y, c);
        }
        self.push_event(Kind::DrawIter, None, n, h, px, Vec::new());
        Ok(())
    }

    pub fn do_fill_contiguous<C: Col, I: IntoIterator<Item = C>>(&mut self, area: &Rectangle, colors: I) -> Result<(), Fault> {
        self.enter(Kind::FillContiguous)?;
        let a = rt(area);
        let mut it = colors.into_iter();
        let mut n = 0u64;
        let mut h = mix(mix(a.0 as u32 as u64, a.1 as u32 as u64), mix(a.2 as u64, a.3 as u64));
        let mut cols = Vec::new();
        let mut ended = false;
        if self.internal_iteration {
            // row-major assignment driven by the colour stream itself; colours beyond the area are pulled and ignored
            let total = a.2 as u64 * a.3 as u64;
            let mut i = 0u64;
            it.for_each(|c| {
                if self.items >= self.budget {
                    self.over_budget = true;
                    return;
                }
                self.items += 1;
                n += 1;
                let c = c.to_u32();
                h = mix(h, c as u64);
                if self.keep_pixels {
                    cols.push(c);
                }
                if i < total {
                    let (x, y) = (a.0 as i64 + (i % a.2 as u64) as i64, a.1 as i64 + (i / a.2 as u64) as i64);
                    if x >= i32::MIN as i64 && x <= i32::MAX as i64 && y >= i32::MIN as i64 && y <= i32::MAX as i64 {
                        self.put(x as i32, y as i32, c);
                    }
                }
                i += 1;
            });
            self.push_event(Kind::FillContiguous, Some(a), n, h, Vec::new(), cols);
            return Ok(());
        }
        if self.skip_invisible_with_nth {
            let b = rt(&self.bbox);
            let mut pending = 0usize;
            'rows: for yy in 0..a.3 as i64 {
                for xx in 0..a.2 as i64 {
                    let (x, y) = (a.0 as i64 + xx, a.1 as i64 + yy);
                    let inside = x >= b.0 as i64 && y >= b.1 as i64 && x < b.0 as i64 + b.2 as i64 && y < b.1 as i64 + b.3 as i64;
                    if !inside {
                        pending += 1;
                        continue;
                    }
                    if self.items >= self.budget {
                        self.over_budget = true;
                        break 'rows;
                    }
                    let got = if pending > 0 { it.nth(pending) } else { it.next() };
                    self.items += pending as u64 + 1;
                    pending = 0;
                    match got {
                        None => break 'rows,
                        Some(c) => {
                            n += 1;
                            let c = c.to_u32();
                            h = mix(h, c as u64);
                            self.put(x as i32, y as i32, c);
                        }
                    }
                }
            }
            self.push_event(Kind::FillContiguous, Some(a), n, h, Vec::new(), cols);
            return Ok(());
        }
        // documented meaning: colours are assigned to the points of `area` in row-major order;
        // points outside the target are skipped but still consume a colour; a short stream leaves
        // the rest untouched.
        'outer: for yy in 0..a.3 as i64 {
            for xx in 0..a.2 as i64 {
                if self.items >= self.budget {
                    self.over_budget = true;
                    ended = true;
                    break 'outer;
                }
                match it.next() {
                    None => {
                        ended = true;
                        break 'outer;
                    }
                    Some(c) => {
                        self.items += 1;
                        n += 1;
                        let c = c.to_u32();
                        h = mix(h, c as u64);
                        if self.keep_pixels {
                            cols.push(c);
                        }
                        let (x, y) = (a.0 as i64 + xx, a.1 as i64 + yy);
                        if x >= i32::MIN as i64 && x <= i32::MAX as i64 && y >= i32::MIN as i64 && y <= i32::MAX as i64 {
                            self.put(x as i32, y as i32, c);
                        }
                    }
                }
            }
        }
        // drain what is left of the stream: a native target may legitimately pull everything
        if !ended {
            loop {
                if self.items >= self.budget {
                    self.over_budget = true;
                    break;
                }
                match it.next() {
                    None => break,
                    Some(c) => {
                        self.items += 1;
                        n += 1;
                        let c = c.to_u32();
                        h = mix(h, c as u64);
                        if self.keep_pixels {
                            cols.push(c);
                        }
                    }
                }
            }
        }
        self.push_event(Kind::FillContiguous, Some(a), n, h, Vec::new(), cols);
        Ok(())
    }

    pub fn do_fill_solid<C: Col>(&mut self, area: &Rectangle, color: C) -> Result<(), Fault> {
        self.enter(Kind::FillSolid)?;
        let a = rt(area);
        let c = color.to_u32();
        let h = mix(mix(mix(a.0 as u32 as u64, a.1 as u32 as u64), mix(a.2 as u64, a.3 as u64)), c as u64);
        // intersect with the box in i64 arithmetic
        let b = rt(&self.bbox);
        let x0 = (a.0 as i64).max(b.0 as i64);
        let y0 = (a.1 as i64).max(b.1 as i64);
        let x1 = (a.0 as i64 + a.2 as i64).min(b.0 as i64 + b.2 as i64);
        let y1 = (a.1 as i64 + a.3 as i64).min(b.1 as i64 + b.3 as i64);
        let total = a.2 as u64 * a.3 as u64;
        if x1 > x0 && y1 > y0 {
            let inside = (x1 - x0) as u64 * (y1 - y0) as u64;
            self.out_of_box += total - inside;
            if self.count_only {
                self.pixels_set += inside;
                self.items += inside;
            } else {
                for y in y0..y1 {
                    for x in x0..x1 {
                        if self.items >= self.budget {
                            self.over_budget = true;
                            break;
                        }
                        self.items += 1;
                        self.pixels_set += 1;
                        self.map.set(x as i32, y as i32, c);
                    }
                }
            }
        } else {
            self.out_of_box += total;
        }
        if self.track_touched && total <= 4_000_000 {
            for yy in 0..a.3 as i64 {
                for xx in 0..a.2 as i64 {
                    self.touched.insert(((a.0 as i64 + xx) as i32, (a.1 as i64 + yy) as i32));
                }
            }
        }
        self.push_event(Kind::FillSolid, Some(a), 1, h, Vec::new(), Vec::new());
        Ok(())
    }

    pub fn do_clear<C: Col>(&mut self, color: C) -> Result<(), Fault> {
        self.enter(Kind::Clear)?;
        let c = color.to_u32();
        let b = rt(&self.bbox);
        let area = b.2 as u64 * b.3 as u64;
        if area > 0 && area <= 4_000_000 && !self.count_only {
            // materialise, so maps of native and default targets compare structurally
            for yy in 0..b.3 as i64 {
                for xx in 0..b.2 as i64 {
                    self.map.set((b.0 as i64 + xx) as i32, (b.1 as i64 + yy) as i32, c);
                }
            }
            self.pixels_set += area;
        } else if area > 0 {
            self.map.px.clear();
            self.map.background = Some(c);
            self.pixels_set += area;
        }
        self.push_event(Kind::Clear, None, 1, c as u64, Vec::new(), Vec::new());
        Ok(())
    }

    /// colour visible at a point (explicit pixel, else the cleared background inside the box)
    pub fn at(&self, x: i32, y: i32) -> Option<u32> {
        self.map.get(x, y).or_else(|| {
            if self.in_box(x, y) {
                self.map.background
            } else {
                None
            }
        })
    }

    /// (kind, area, n, hash) per event: comparable summary of the call sequence
    pub fn shape(&self) -> Vec<(Kind, Option<(i32, i32, u32, u32)>, u64, u64)> {
        self.events.iter().map(|e| (e.kind, e.area, e.n, e.hash)).collect()
    }
    pub fn shape_hash(&self) -> u64 {
        let mut h = 7u64;
        for e in &self.events {
            h = mix(h, e.kind as u64);
        }
        h
    }
}

/// Access to the log of either recording target.
pub trait Recorder: DrawTarget<Error = Fault> {
    fn log(&self) -> &Log;
    fn log_mut(&mut self) -> &mut Log;
    fn with_box(bbox: Rectangle) -> Self;
    const NATIVE: bool;
}

/// Target that implements only `draw_iter` and inherits every trait default.
pub struct IterTarget<C> {
    pub log: Log,
    _c: core::marker::PhantomData<C>,
}

/// Target with native `fill_contiguous`, `fill_solid`, `clear`.
pub struct NativeTarget<C> {
    pub log: Log,
    _c: core::marker::PhantomData<C>,
}

impl<C: Col> IterTarget<C> {
    pub fn new(bbox: Rectangle) -> Self {
        IterTarget {
            log: Log::new(bbox),
            _c: core::marker::PhantomData,
        }
    }
}
impl<C: Col> NativeTarget<C> {
    pub fn new(bbox: Rectangle) -> Self {
        NativeTarget {
            log: Log::new(bbox),
            _c: core::marker::PhantomData,
        }
    }
}

impl<C> Dimensions for IterTarget<C> {
    fn bounding_box(&self) -> Rectangle {
        self.log.bbox
    }
}
impl<C> Dimensions for NativeTarget<C> {
    fn bounding_box(&self) -> Rectangle {
        self.log.bbox
    }
}

impl<C: Col> DrawTarget for IterTarget<C> {
    type Color = C;
    type Error = Fault;
    fn draw_iter<I>(&mut self, pixels: I) -> Result<(), Fault>
    where
        I: IntoIterator<Item = Pixel<C>>,
    {
        self.log.do_draw_iter(pixels)
    }
}

impl<C: Col> DrawTarget for NativeTarget<C> {
    type Color = C;
    type Error = Fault;
    fn draw_iter<I>(&mut self, pixels: I) -> Result<(), Fault>
    where
        I: IntoIterator<Item = Pixel<C>>,
    {
        self.log.do_draw_iter(pixels)
    }
    fn fill_contiguous<I>(&mut self, area: &Rectangle, colors: I) -> Result<(), Fault>
    where
        I: IntoIterator<Item = C>,
    {
        self.log.do_fill_contiguous(area, colors)
    }
    fn fill_solid(&mut self, area: &Rectangle, color: C) -> Result<(), Fault> {
        self.log.do_fill_solid(area, color)
    }
    fn clear(&mut self, color: C) -> Result<(), Fault> {
        self.log.do_clear(color)
    }
}

impl<C: Col> Recorder for IterTarget<C> {
    fn log(&self) -> &Log {
        &self.log
    }
    fn log_mut(&mut self) -> &mut Log {
        &mut self.log
    }
    fn with_box(bbox: Rectangle) -> Self {
        Self::new(bbox)
    }
    const NATIVE: bool = false;
}
impl<C: Col> Recorder for NativeTarget<C> {
    fn log(&self) -> &Log {
        &self.log
    }
    fn log_mut(&mut self) -> &mut Log {
        &mut self.log
    }
    fn with_box(bbox: Rectangle) -> Self {
        Self::new(bbox)
    }
    const NATIVE: bool = true;
}

/// Bounded target boxes derived from an expected pixel map: the tight box (every edge of the target
/// is a painted edge), boxes that cut k columns/rows at the right/bottom resp. left/top, a box whose
/// upper half is cut away, and the same tight box at a non-zero origin is implied (the map's own
/// coordinates are arbitrary). `None` for an empty map.
pub fn cut_boxes(want: &PixMap) -> Option<[Rectangle; 5]> {
    if want.is_empty() {
        return None;
    }
    let (mut x0, mut y0, mut x1, mut y1) = (i32::MAX, i32::MAX, i32::MIN, i32::MIN);
    for &(x, y) in want.px.keys() {
        x0 = x0.min(x);
        y0 = y0.min(y);
        x1 = x1.max(x);
        y1 = y1.max(y);
    }
    let (w, h) = ((x1 - x0 + 1) as u32, (y1 - y0 + 1) as u32);
    let k = (want.hash() % 3) as i32 + 1;
    Some([
        rect(x0, y0, w, h),
        rect(x0 - k, y0 - k, w, h),
        rect(x0 + k, y0 + k, w, h),
        rect(x0 - 2, y0 + (h as i32) / 2, w + 4, h),
        // only the first column and the first row of the painted region remain on the target
        rect(x0 - (w as i32) + 1, y0 - (h as i32) + 1, w, h),
    ])
}

/// the part of `want` that lies inside `bx`
pub fn restrict(want: &PixMap, bx: &Rectangle) -> PixMap {
    let mut m = PixMap::new();
    for (&(x, y), &c) in &want.px {
        if x >= bx.top_left.x && y >= bx.top_left.y && (x as i64) < bx.top_left.x as i64 + bx.size.width as i64 && (y as i64) < bx.top_left.y as i64 + bx.size.height as i64 {
            m.set(x, y, c);
        }
    }
    m
}

/// Consuming an iterator in other ways than `next()` must describe the same sequence: after `k`
/// calls of `next()` the remaining items seen through `count`, `last`, `fold`, `for_each`, `nth` and
/// `size_hint` are exactly `reference[k..]` (specialised `fold`/`last`/`count`/`nth` implementations
/// and their interaction with a partly consumed state). Returns a description of the first
/// disagreement.
pub fn consumer_disagreement<I>(make: &dyn Fn() -> I, reference: &[I::Item], ks: &[usize]) -> Option<String>
where
    I: Iterator,
    I::Item: PartialEq + Clone + core::fmt::Debug,
{
    let n = reference.len();
    for &k in ks {
        let k = k.min(n + 1);
        // a fresh iterator advanced by k x next() for every consumer (the iterator need not be Clone)
        let at_k = || {
            let mut it = make();
            for _ in 0..k {
                it.next();
            }
            it
        };
        let rest: &[I::Item] = if k <= n { &reference[k..] } else { &[] };
        let (lo, hi) = at_k().size_hint();
        if lo > rest.len() || hi.map_or(false, |h| h < rest.len()) {
            return Some(format!("after {} x next(): size_hint() = ({}, {:?}) does not bracket the {} remaining items", k, lo, hi, rest.len()));
        }
        let c = at_k().count();
        if c != rest.len() {
            return Some(format!("after {} x next(): count() = {}, {} items remain", k, c, rest.len()));
        }
        let l = at_k().last();
        if l.as_ref() != rest.last() {
            return Some(format!("after {} x next(): last() = {:?}, expected {:?}", k, l, rest.last()));
        }
        let mut folded: Vec<I::Item> = Vec::with_capacity(rest.len());
        at_k().for_each(|x| folded.push(x));
        if folded != rest {
            let at = folded.iter().zip(rest.iter()).position(|(a, b)| a != b).unwrap_or(folded.len().min(rest.len()));
            return Some(format!("after {} x next(): for_each()/fold() yields {} items, expected {}; first difference at remaining position {}: {:?} vs {:?}", k, folded.len(), rest.len(), at, folded.get(at), rest.get(at)));
        }
        for j in [0usize, 1, rest.len().saturating_sub(1), rest.len()] {
            let got = at_k().nth(j);
            if got.as_ref() != rest.get(j) {
                return Some(format!("after {} x next(): nth({}) = {:?}, expected {:?}", k, j, got, rest.get(j)));
            }
        }
        let sk: Vec<I::Item> = at_k().skip(1).collect();
        if sk != rest.get(1..).unwrap_or(&[]) {
            return Some(format!("after {} x next(): skip(1) yields {} items, expected {}", k, sk.len(), rest.len().saturating_sub(1)));
        }
    }
    None
}
