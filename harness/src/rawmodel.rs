//! Independent model of the documented raw pixel layouts (written from the documentation):
//! rows are padded to whole bytes; `LittleEndianMsb0` = little-endian bytes with
//! most-significant-bit-first sub-byte pixels; `BigEndianLsb0` (alt = true) = big-endian bytes
//! with least-significant-bit-first sub-byte pixels.

pub fn stride(w: u32, bpp: u32) -> usize {
    ((w as usize) * bpp as usize + 7) / 8
}

/// raw value of pixel (x, y) of a w-wide image stored in `data`
pub fn model_pixel(data: &[u8], w: u32, bpp: u32, alt: bool, x: u32, y: u32) -> u32 {
    let st = stride(w, bpp);
    if bpp < 8 {
        let ppb = 8 / bpp;
        let b = data[y as usize * st + (x / ppb) as usize] as u32;
        let slot = x % ppb;
        let pos = (if alt { slot } else { ppb - 1 - slot }) * bpp;
        (b >> pos) & ((1 << bpp) - 1)
    } else {
        let n = (bpp / 8) as usize;
        let o = y as usize * st + x as usize * n;
        let mut v = 0u32;
        for k in 0..n {
            let byte = data[o + k] as u32;
            if alt {
                v = (v << 8) | byte;
            } else {
                v |= byte << (8 * k);
            }
        }
        v
    }
}

/// writes raw value `v` as pixel (x, y) into `data`
pub fn model_set_pixel(data: &mut [u8], w: u32, bpp: u32, alt: bool, x: u32, y: u32, v: u32) {
    let st = stride(w, bpp);
    if bpp < 8 {
        let ppb = 8 / bpp;
        let i = y as usize * st + (x / ppb) as usize;
        let slot = x % ppb;
        let pos = (if alt { slot } else { ppb - 1 - slot }) * bpp;
        let mask = (((1u32 << bpp) - 1) << pos) as u8;
        data[i] = (data[i] & !mask) | (((v << pos) as u8) & mask);
    } else {
        let n = (bpp / 8) as usize;
        let o = y as usize * st + x as usize * n;
        for k in 0..n {
            data[o + k] = if alt { (v >> (8 * (n - 1 - k))) as u8 } else { (v >> (8 * k)) as u8 };
        }
    }
}
