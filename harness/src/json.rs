//! Minimal JSON value + serializer (no external crates are needed for evidence files).
use std::fmt::Write;

#[derive(Clone, Debug)]
pub enum J {
    Null,
    Bool(bool),
    Int(i64),
    UInt(u64),
    Num(f64),
    Str(String),
    Arr(Vec<J>),
    Obj(Vec<(String, J)>),
    /// pre-serialised JSON text, embedded verbatim
    Raw(String),
}

impl J {
    pub fn s(x: impl Into<String>) -> J {
        J::Str(x.into())
    }
    pub fn obj() -> J {
        J::Obj(Vec::new())
    }
    pub fn set(&mut self, k: &str, v: J) -> &mut J {
        if let J::Obj(o) = self {
            if let Some(e) = o.iter_mut().find(|(kk, _)| kk == k) {
                e.1 = v;
            } else {
                o.push((k.to_string(), v));
            }
        }
        self
    }
    pub fn with(mut self, k: &str, v: J) -> J {
        self.set(k, v);
        self
    }
    pub fn write(&self, out: &mut String) {
        match self {
            J::Null => out.push_str("null"),
            J::Bool(b) => out.push_str(if *b { "true" } else { "false" }),
            J::Int(i) => {
                let _ = write!(out, "{}", i);
            }
            J::UInt(i) => {
                let _ = write!(out, "{}", i);
            }
            J::Num(f) => {
                if f.is_finite() {
                    let _ = write!(out, "{}", f);
                    if f.fract() == 0.0 && !out.ends_with(|c: char| c == 'e') && f.abs() < 1e15 {
                        // keep it a JSON number (integers print without a dot, which is fine)
                    }
                } else {
                    out.push_str("null");
                }
            }
            J::Str(s) => write_str(s, out),
            J::Arr(a) => {
                out.push('[');
                for (i, x) in a.iter().enumerate() {
                    if i > 0 {
                        out.push(',');
                    }
                    x.write(out);
                }
                out.push(']');
            }
            J::Obj(o) => {
                out.push('{');
                for (i, (k, v)) in o.iter().enumerate() {
                    if i > 0 {
                        out.push(',');
                    }
                    write_str(k, out);
                    out.push(':');
                    v.write(out);
                }
                out.push('}');
            }
            J::Raw(r) => out.push_str(r),
        }
    }
    pub fn to_text(&self) -> String {
        let mut s = String::new();
        self.write(&mut s);
        s
    }
}

fn write_str(s: &str, out: &mut String) {
    out.push('"');
    for c in s.chars() {
        match c {
            '"' => out.push_str("\\\""),
            '\\' => out.push_str("\\\\"),
            '\n' => out.push_str("\\n"),
            '\r' => out.push_str("\\r"),
            '\t' => out.push_str("\\t"),
            c if (c as u32) < 0x20 => {
                let _ = write!(out, "\\u{:04x}", c as u32);
            }
            c => out.push(c),
        }
    }
    out.push('"');
}

impl From<u64> for J {
    fn from(x: u64) -> J {
        J::UInt(x)
    }
}
impl From<usize> for J {
    fn from(x: usize) -> J {
        J::UInt(x as u64)
    }
}
impl From<u32> for J {
    fn from(x: u32) -> J {
        J::UInt(x as u64)
    }
}
impl From<i64> for J {
    fn from(x: i64) -> J {
        J::Int(x)
    }
}
impl From<i32> for J {
    fn from(x: i32) -> J {
        J::Int(x as i64)
    }
}
impl From<bool> for J {
    fn from(x: bool) -> J {
        J::Bool(x)
    }
}
impl From<f64> for J {
    fn from(x: f64) -> J {
        J::Num(x)
    }
}
impl From<&str> for J {
    fn from(x: &str) -> J {
        J::Str(x.to_string())
    }
}
impl From<String> for J {
    fn from(x: String) -> J {
        J::Str(x)
    }
}
impl<T: Into<J>> From<Vec<T>> for J {
    fn from(x: Vec<T>) -> J {
        J::Arr(x.into_iter().map(Into::into).collect())
    }
}

#[macro_export]
macro_rules! jobj {
    ($($k:expr => $v:expr),* $(,)?) => {{
        #[allow(unused_mut)]
        let mut o = $crate::json::J::obj();
        $( o.set($k, $crate::json::J::from($v)); )*
        o
    }};
}
