//! Exact / f64 geometry helpers for the oracles (independent of the library under test).

/// Distance from point (px, py) to the axis-aligned ellipse x²/a² + y²/b² = 1 centred at the
/// origin (a, b > 0). Robust bisection after D. Eberly, "Distance from a Point to an Ellipse".
pub fn dist_point_ellipse(a: f64, b: f64, px: f64, py: f64) -> f64 {
    // work in the first quadrant with e0 >= e1
    let (mut e0, mut e1, mut y0, mut y1) = (a, b, px.abs(), py.abs());
    if e0 < e1 {
        core::mem::swap(&mut e0, &mut e1);
        core::mem::swap(&mut y0, &mut y1);
    }
    let (x0, x1);
    if y1 > 0.0 {
        if y0 > 0.0 {
            let z0 = y0 / e0;
            let z1 = y1 / e1;
            let g = z0 * z0 + z1 * z1 - 1.0;
            if g != 0.0 {
                let r0 = (e0 / e1) * (e0 / e1);
                let sbar = get_root(r0, z0, z1, g);
                x0 = r0 * y0 / (sbar + r0);
                x1 = y1 / (sbar + 1.0);
            } else {
                return 0.0;
            }
        } else {
            // y0 == 0
            x0 = 0.0;
            x1 = e1;
        }
    } else {
        // y1 == 0
        let numer0 = e0 * y0;
        let denom0 = e0 * e0 - e1 * e1;
        if numer0 < denom0 {
            let xde0 = numer0 / denom0;
            x0 = e0 * xde0;
            x1 = e1 * (1.0 - xde0 * xde0).max(0.0).sqrt();
        } else {
            x0 = e0;
            x1 = 0.0;
        }
    }
    ((x0 - y0) * (x0 - y0) + (x1 - y1) * (x1 - y1)).sqrt()
}

fn get_root(r0: f64, z0: f64, z1: f64, g: f64) -> f64 {
    let n0 = r0 * z0;
    let mut s0 = z1 - 1.0;
    let mut s1 = if g < 0.0 { 0.0 } else { (n0 * n0 + z1 * z1).sqrt() - 1.0 };
    let mut s = 0.0;
    for _ in 0..200 {
        s = (s0 + s1) / 2.0;
        if s == s0 || s == s1 {
            break;
        }
        let ratio0 = n0 / (s + r0);
        let ratio1 = z1 / (s + 1.0);
        let g = ratio0 * ratio0 + ratio1 * ratio1 - 1.0;
        if g > 0.0 {
            s0 = s;
        } else if g < 0.0 {
            s1 = s;
        } else {
            break;
        }
    }
    s
}

/// signed: negative inside the ellipse, positive outside (magnitude = distance to the curve)
pub fn signed_dist_point_ellipse(a: f64, b: f64, px: f64, py: f64) -> f64 {
    let d = dist_point_ellipse(a, b, px, py);
    let inside = (px / a) * (px / a) + (py / b) * (py / b) < 1.0;
    if inside {
        -d
    } else {
        d
    }
}

/// distance from (px, py) to the ray starting at the origin with direction angle `deg`
/// (atan2 convention in the coordinate system the point is given in)
pub fn dist_point_ray(deg: f64, px: f64, py: f64) -> f64 {
    let r = deg.to_radians();
    let (ux, uy) = (r.cos(), r.sin());
    let t = px * ux + py * uy;
    if t <= 0.0 {
        (px * px + py * py).sqrt()
    } else {
        (px * uy - py * ux).abs()
    }
}

/// is angle `theta` (degrees) inside the sweep starting at `start` with signed extent `sweep`?
pub fn in_sweep(theta: f64, start: f64, sweep: f64) -> bool {
    if sweep.abs() >= 360.0 {
        return true;
    }
    if sweep >= 0.0 {
        (theta - start).rem_euclid(360.0) <= sweep
    } else {
        (start - theta).rem_euclid(360.0) <= -sweep
    }
}
