//! The drawable zoo: serialisable descriptions of every built-in drawable, random/biased
//! generators for them, and a visitor that hands the concrete drawable to a property's monitor.
use crate::{rng::Rng, target::Col};
use embedded_graphics::{
    geometry::AngleUnit,
    image::{Image, ImageDrawableExt, ImageRaw},
    mono_font::{mapping::StrGlyphMapping, DecorationDimensions, MonoFont, MonoTextStyle, MonoTextStyleBuilder},
    pixelcolor::{raw::BigEndianLsb0, raw::LittleEndianMsb0, *},
    prelude::*,
    primitives::{
        Arc, Circle, CornerRadii, Ellipse, Line, Polyline, PrimitiveStyle, PrimitiveStyleBuilder, Rectangle, RoundedRectangle, Sector, StrokeAlignment, StrokeStyle, Styled, Triangle,
    },
    text::{Alignment, Baseline, LineHeight, Text, TextStyleBuilder},
    Pixel,
};

pub type P2 = (i32, i32);
pub type S2 = (u32, u32);

#[derive(Clone, Debug, PartialEq)]
pub enum Prim {
    Rect { tl: P2, size: S2 },
    Circle { tl: P2, d: u32 },
    Ellipse { tl: P2, size: S2 },
    /// radii: top-left, top-right, bottom-right, bottom-left
    RRect { tl: P2, size: S2, radii: [S2; 4] },
    Tri { p: [P2; 3] },
    Line { a: P2, b: P2 },
    Polyline { pts: Vec<P2>, tr: P2 },
    Arc { tl: P2, d: u32, start: f32, sweep: f32 },
    Sector { tl: P2, d: u32, start: f32, sweep: f32 },
}

impl Prim {
    pub fn kind(&self) -> &'static str {
        match self {
            Prim::Rect { .. } => "rectangle",
            Prim::Circle { .. } => "circle",
            Prim::Ellipse { .. } => "ellipse",
            Prim::RRect { .. } => "rounded_rectangle",
            Prim::Tri { .. } => "triangle",
            Prim::Line { .. } => "line",
            Prim::Polyline { .. } => "polyline",
            Prim::Arc { .. } => "arc",
            Prim::Sector { .. } => "sector",
        }
    }
    pub fn is_closed_shape(&self) -> bool {
        matches!(self, Prim::Rect { .. } | Prim::Circle { .. } | Prim::Ellipse { .. } | Prim::RRect { .. })
    }
}

#[derive(Clone, Copy, Debug, PartialEq, Eq)]
pub struct StyleD {
    /// colour indices (mapped through `Col::nth`), None = absent
    pub fill: Option<u32>,
    pub stroke: Option<u32>,
    pub width: u32,
    /// 0 inside, 1 center, 2 outside
    pub align: u8,
    pub dotted: bool,
}

impl StyleD {
    pub fn build<C: Col>(&self) -> PrimitiveStyle<C> {
        // the shorthand constructors where they describe the same style (odd widths / fill-only),
        // the builder everywhere else: both public ways to make a style are exercised
        if !self.dotted && self.align == 1 {
            if let (None, Some(sc)) = (self.fill, self.stroke) {
                if self.width % 2 == 1 {
                    return PrimitiveStyle::with_stroke(C::nth(sc), self.width);
                }
            }
            if let (Some(fc), None, 0) = (self.fill, self.stroke, self.width) {
                return PrimitiveStyle::with_fill(C::nth(fc));
            }
        }
        let align = match self.align {
            0 => StrokeAlignment::Inside,
            1 => StrokeAlignment::Center,
            _ => StrokeAlignment::Outside,
        };
        // a third of the styles is derived from an existing style that differs either in its colours
        // or in its stroke geometry (PrimitiveStyleBuilder::from + the setters and reset_* methods),
        // the way a theme is specialised; what the two styles share is not set again
        let sel = self.width % 3 + self.align as u32 + self.fill.unwrap_or(1) % 3;
        if sel % 3 == 2 {
            let style = if self.dotted { StrokeStyle::Dotted } else { StrokeStyle::Solid };
            if sel == 2 {
                let other = PrimitiveStyleBuilder::new().fill_color(C::nth(5)).stroke_color(C::nth(6)).stroke_width(self.width).stroke_alignment(align).stroke_style(style).build();
                let b = PrimitiveStyleBuilder::from(&other);
                let b = match self.fill {
                    Some(f) => b.fill_color(C::nth(f)),
                    None => b.reset_fill_color(),
                };
                return match self.stroke {
                    Some(s) => b.stroke_color(C::nth(s)),
                    None => b.reset_stroke_color(),
                }
                .build();
            }
            let mut o = PrimitiveStyleBuilder::new()
                .stroke_width(self.width / 2 + 7)
                .stroke_alignment(if self.align == 2 { StrokeAlignment::Inside } else { StrokeAlignment::Outside })
                .stroke_style(if self.dotted { StrokeStyle::Solid } else { StrokeStyle::Dotted });
            if let Some(f) = self.fill {
                o = o.fill_color(C::nth(f));
            }
            if let Some(s) = self.stroke {
                o = o.stroke_color(C::nth(s));
            }
            let other = o.build();
            return PrimitiveStyleBuilder::from(&other).stroke_width(self.width).stroke_alignment(align).stroke_style(style).build();
        }
        let mut b = PrimitiveStyleBuilder::new().stroke_width(self.width).stroke_alignment(align);
        if let Some(f) = self.fill {
            b = b.fill_color(C::nth(f));
        }
        if let Some(s) = self.stroke {
            b = b.stroke_color(C::nth(s));
        }
        if self.dotted {
            b = b.stroke_style(StrokeStyle::Dotted);
        }
        b.build()
    }
    pub fn text(&self) -> String {
        format!(
            "fill={:?} stroke={:?} width={} align={}{}",
            self.fill,
            self.stroke,
            self.width,
            ["Inside", "Center", "Outside"][self.align.min(2) as usize],
            if self.dotted { " Dotted" } else { "" }
        )
    }
}

#[derive(Clone, Debug, PartialEq)]
pub struct ImageD {
    pub w: u32,
    pub h: u32,
    pub data: Vec<u8>,
    pub at: P2,
    pub big_endian: bool,
    /// nested sub-image areas (each relative to the previous level), at most 2
    pub subs: Vec<(i32, i32, u32, u32)>,
}

#[derive(Clone, Copy, Debug, PartialEq, Eq)]
pub enum DecoD {
    None,
    TextColor,
    Custom(u32),
}

#[derive(Clone, Copy, Debug, PartialEq, Eq)]
pub enum LhD {
    Pixels(u32),
    Percent(u32),
}

#[derive(Clone, Debug, PartialEq)]
pub struct CustomFontD {
    pub image_w: u32,
    pub image_h: u32,
    pub atlas: Vec<u8>,
    pub cw: u32,
    pub ch: u32,
    pub spacing: u32,
    pub baseline: u32,
    pub underline: (u32, u32),
    pub strike: (u32, u32),
    /// StrGlyphMapping string (ranges use the NUL marker syntax of the library)
    pub mapping: String,
    pub replacement: usize,
    /// ground truth of the mapping: the i-th character has glyph index i (the mapping string is
    /// derived from this list, the oracles use the list)
    pub glyph_chars: Vec<char>,
    /// false: `StrGlyphMapping` over `mapping`; true: a closure `|c| c as usize % glyphs`
    /// (`GlyphMapping` is implemented for `Fn(char) -> usize`), under which every character is mapped
    pub closure_mapping: bool,
}

impl CustomFontD {
    /// glyph index the font's mapping designates for `c` (harness-side ground truth)
    pub fn index_of(&self, c: char) -> usize {
        if self.closure_mapping {
            c as usize % self.glyph_chars.len()
        } else {
            self.glyph_chars.iter().position(|g| *g == c).unwrap_or(self.replacement)
        }
    }
    pub fn is_mapped(&self, c: char) -> bool {
        self.closure_mapping || self.glyph_chars.contains(&c)
    }
}

#[derive(Clone, Debug, PartialEq)]
pub enum FontD {
    /// index into `crate::fonts::FONTS`
    Builtin(usize),
    Custom(CustomFontD),
}

#[derive(Clone, Debug, PartialEq)]
pub struct TextD {
    pub text: String,
    pub at: P2,
    pub font: FontD,
    pub text_color: Option<u32>,
    pub bg: Option<u32>,
    pub underline: DecoD,
    pub strike: DecoD,
    /// 0 top, 1 bottom, 2 middle, 3 alphabetic
    pub baseline: u8,
    /// 0 left, 1 center, 2 right
    pub align: u8,
    pub lh: LhD,
}

#[derive(Clone, Debug, PartialEq)]
pub enum Desc {
    Styled(Prim, StyleD),
    Image(ImageD),
    Text(TextD),
}

impl Desc {
    pub fn kind(&self) -> &'static str {
        match self {
            Desc::Styled(p, _) => p.kind(),
            Desc::Image(i) => {
                if i.subs.is_empty() {
                    "image"
                } else {
                    "sub_image"
                }
            }
            Desc::Text(_) => "text",
        }
    }
    /// human-readable, complete description (goes into replay files and samples)
    pub fn text(&self) -> String {
        match self {
            Desc::Styled(p, s) => format!("{:?} style[{}]", p, s.text()),
            Desc::Image(i) => format!("Image {}x{} {} at {:?} subs {:?} data {:02x?}", i.w, i.h, if i.big_endian { "BigEndianLsb0" } else { "LittleEndianMsb0" }, i.at, i.subs, &i.data[..i.data.len().min(48)]),
            Desc::Text(t) => {
                let font = match &t.font {
                    FontD::Builtin(i) => format!("{}::{}", crate::fonts::FONTS[*i].0, crate::fonts::FONTS[*i].1),
                    FontD::Custom(c) => format!("custom(cell {}x{} spacing {} image {}x{} baseline {} underline {:?} strike {:?} mapping {:?})", c.cw, c.ch, c.spacing, c.image_w, c.image_h, c.baseline, c.underline, c.strike, c.mapping),
                };
                format!(
                    "Text {:?} at {:?} font {} text_color={:?} bg={:?} underline={:?} strike={:?} baseline={} align={} line_height={:?}",
                    t.text,
                    t.at,
                    font,
                    t.text_color,
                    t.bg,
                    t.underline,
                    t.strike,
                    ["Top", "Bottom", "Middle", "Alphabetic"][t.baseline.min(3) as usize],
                    ["Left", "Center", "Right"][t.align.min(2) as usize],
                    t.lh
                )
            }
        }
    }
    pub fn hash(&self) -> u64 {
        crate::rng::hash_str(&format!("{:?}", self))
    }
}

// ---------------------------------------------------------------- uniform drawable interface

/// What a property monitor may do with a concrete drawable.
pub trait Dr<C: Col>: Sized {
    /// draws; text returns its next position
    fn draw_on<T: DrawTarget<Color = C>>(&self, t: &mut T) -> Result<Option<Point>, T::Error>;
    fn bbox(&self) -> Rectangle;
    fn translated(&self, by: Point) -> Self;
    fn translate_in_place(&mut self, by: Point);
    /// `pixels()` of styled primitives (bounded), None for other drawables
    fn pixels_vec(&self, budget: usize) -> Option<Vec<Pixel<C>>>;
    /// number of items `pixels()` yields (at most budget + 1), without allocating
    fn pixels_count(&self, _budget: usize) -> Option<usize> {
        None
    }
    /// the style is completely transparent
    fn transparent(&self) -> bool;
    /// `pixels()` consumed in other ways than `next()` (count, last, fold, nth ... from partly
    /// consumed states) against the reference sequence; None = agrees / not a styled primitive
    fn pixels_consumed_differently(&self, _reference: &[Pixel<C>]) -> Option<String> {
        None
    }
}

pub trait Visitor<C: Col> {
    type Out;
    fn visit<D: Dr<C>>(&mut self, d: &D, desc: &Desc) -> Self::Out;
}

macro_rules! dr_styled {
    ($([$($lt:lifetime)?] $p:ty),*) => {$(
        impl<$($lt,)? C: Col> Dr<C> for Styled<$p, PrimitiveStyle<C>> {
            fn draw_on<T: DrawTarget<Color = C>>(&self, t: &mut T) -> Result<Option<Point>, T::Error> {
                self.draw(t).map(|_| None)
            }
            fn bbox(&self) -> Rectangle {
                self.bounding_box()
            }
            fn translated(&self, by: Point) -> Self {
                self.translate(by)
            }
            fn translate_in_place(&mut self, by: Point) {
                self.translate_mut(by);
            }
            fn pixels_vec(&self, budget: usize) -> Option<Vec<Pixel<C>>> {
                Some(self.pixels().take(budget).collect())
            }
            fn pixels_count(&self, budget: usize) -> Option<usize> {
                Some(self.pixels().take(budget + 1).count())
            }
            fn transparent(&self) -> bool {
                self.style.is_transparent()
            }
            fn pixels_consumed_differently(&self, reference: &[Pixel<C>]) -> Option<String> {
                let n = reference.len();
                let first_row = reference.iter().take_while(|q| q.0.y == reference[0].0.y).count();
                crate::target::consumer_disagreement(&|| self.pixels(), reference, &[0, 1, first_row, n / 2, n])
            }
        }
    )*};
}
dr_styled!([] Rectangle, [] Circle, [] Ellipse, [] RoundedRectangle, [] Triangle, [] Line, [] Arc, [] Sector, ['a] Polyline<'a>);

impl<'a, C, T> Dr<C> for Image<'a, T>
where
    C: Col,
    T: ImageDrawable<Color = C>,
{
    fn draw_on<D: DrawTarget<Color = C>>(&self, t: &mut D) -> Result<Option<Point>, D::Error> {
        self.draw(t).map(|_| None)
    }
    fn bbox(&self) -> Rectangle {
        self.bounding_box()
    }
    fn translated(&self, by: Point) -> Self {
        self.translate(by)
    }
    fn translate_in_place(&mut self, by: Point) {
        self.translate_mut(by);
    }
    fn pixels_vec(&self, _budget: usize) -> Option<Vec<Pixel<C>>> {
        None
    }
    fn transparent(&self) -> bool {
        false
    }
}

impl<'a, C> Dr<C> for Text<'a, MonoTextStyle<'a, C>>
where
    C: Col,
{
    fn draw_on<D: DrawTarget<Color = C>>(&self, t: &mut D) -> Result<Option<Point>, D::Error> {
        self.draw(t).map(Some)
    }
    fn bbox(&self) -> Rectangle {
        self.bounding_box()
    }
    fn translated(&self, by: Point) -> Self {
        self.translate(by)
    }
    fn translate_in_place(&mut self, by: Point) {
        self.translate_mut(by);
    }
    fn pixels_vec(&self, _budget: usize) -> Option<Vec<Pixel<C>>> {
        None
    }
    fn transparent(&self) -> bool {
        self.character_style.is_transparent()
    }
}

fn pt(p: P2) -> Point {
    Point::new(p.0, p.1)
}
fn sz(s: S2) -> Size {
    Size::new(s.0, s.1)
}

/// Colour types usable with the zoo (images need concrete raw-iterator impls).
pub trait ZCol: Col {
    fn visit_image<V: Visitor<Self>>(img: &ImageD, desc: &Desc, v: &mut V) -> V::Out;
}

macro_rules! zcol {
    ($($t:ty),*) => {$(
        impl ZCol for $t {
            fn visit_image<V: Visitor<Self>>(img: &ImageD, desc: &Desc, v: &mut V) -> V::Out {
                fn go<'a, V: Visitor<$t>, I: ImageDrawable<Color = $t>>(raw: &'a I, img: &ImageD, desc: &Desc, v: &mut V) -> V::Out {
                    match img.subs.len() {
                        0 => v.visit(&Image::new(raw, pt(img.at)), desc),
                        1 => {
                            let a = img.subs[0];
                            let s1 = raw.sub_image(&crate::target::rect(a.0, a.1, a.2, a.3));
                            v.visit(&Image::new(&s1, pt(img.at)), desc)
                        }
                        _ => {
                            let a = img.subs[0];
                            let b = img.subs[1];
                            let s1 = raw.sub_image(&crate::target::rect(a.0, a.1, a.2, a.3));
                            let s2 = s1.sub_image(&crate::target::rect(b.0, b.1, b.2, b.3));
                            v.visit(&Image::new(&s2, pt(img.at)), desc)
                        }
                    }
                }
                if img.big_endian {
                    let raw = ImageRaw::<$t, BigEndianLsb0>::new(&img.data, Size::new(img.w, img.h)).expect("zoo image data length");
                    go(&raw, img, desc, v)
                } else {
                    let raw = ImageRaw::<$t, LittleEndianMsb0>::new(&img.data, Size::new(img.w, img.h)).expect("zoo image data length");
                    go(&raw, img, desc, v)
                }
            }
        }
    )*};
}
zcol!(BinaryColor, Gray2, Gray4, Gray8, Rgb565, Rgb888, Rgb332, Rgb555, Bgr888);

pub fn image_data_len<C: Col>(w: u32, h: u32) -> usize {
    crate::rawmodel::stride(w, C::bits()) * h as usize
}

fn baseline_of(b: u8) -> Baseline {
    match b {
        0 => Baseline::Top,
        1 => Baseline::Bottom,
        2 => Baseline::Middle,
        _ => Baseline::Alphabetic,
    }
}
fn alignment_of(a: u8) -> Alignment {
    match a {
        0 => Alignment::Left,
        1 => Alignment::Center,
        _ => Alignment::Right,
    }
}

impl TextD {
    /// builds the character style for `font` and hands the Text to `f`
    pub fn with_text<C: Col, R>(&self, font: &MonoFont<'_>, f: impl FnOnce(&Text<'_, MonoTextStyle<'_, C>>) -> R) -> R {
        let default_ts = self.align == 0 && self.baseline == 3 && self.lh == LhD::Percent(100);
        let plain = self.bg.is_none() && self.underline == DecoD::None && self.strike == DecoD::None;
        // the shorthand constructors (MonoTextStyle::new, Text::new / with_baseline / with_alignment)
        // where they describe the same text, chosen by the parity of the position; the builders otherwise
        if let (Some(c), true, true) = (self.text_color, plain, self.at.1 % 2 == 0) {
            let style = MonoTextStyle::new(font, C::nth(c));
            if default_ts {
                return f(&Text::new(&self.text, pt(self.at), style));
            }
            if self.align == 0 && self.lh == LhD::Percent(100) {
                return f(&Text::with_baseline(&self.text, pt(self.at), style, baseline_of(self.baseline)));
            }
            if self.baseline == 3 && self.lh == LhD::Percent(100) {
                return f(&Text::with_alignment(&self.text, pt(self.at), style, alignment_of(self.align)));
            }
        }
        // a third of the styles is derived from an existing style that differs either in its colours
        // or in its decorations (MonoTextStyleBuilder::from / TextStyleBuilder::from + setters and
        // reset_* methods); what the two styles share is not set again
        let sel = (self.at.0 + self.at.1).rem_euclid(6);
        let derived = sel == 1 || sel == 4;
        let other;
        let mut b = MonoTextStyleBuilder::<C>::new().font(font);
        if sel == 1 {
            // same decorations, other colours
            let mut o = MonoTextStyleBuilder::<C>::new().font(font).text_color(C::nth(5)).background_color(C::nth(6));
            o = match self.underline {
                DecoD::None => o,
                DecoD::TextColor => o.underline(),
                DecoD::Custom(c) => o.underline_with_color(C::nth(c)),
            };
            o = match self.strike {
                DecoD::None => o,
                DecoD::TextColor => o.strikethrough(),
                DecoD::Custom(c) => o.strikethrough_with_color(C::nth(c)),
            };
            other = o.build();
            b = MonoTextStyleBuilder::from(&other);
            b = match self.text_color {
                Some(c) => b.text_color(C::nth(c)),
                None => b.reset_text_color(),
            };
            b = match self.bg {
                Some(c) => b.background_color(C::nth(c)),
                None => b.reset_background_color(),
            };
            let style = b.build();
            return self.finish_text(style, derived, f);
        }
        if sel == 4 {
            // same colours, other decorations
            let mut o = MonoTextStyleBuilder::<C>::new().font(font).underline_with_color(C::nth(7)).strikethrough();
            if let Some(c) = self.text_color {
                o = o.text_color(C::nth(c));
            }
            if let Some(c) = self.bg {
                o = o.background_color(C::nth(c));
            }
            other = o.build();
            b = MonoTextStyleBuilder::from(&other);
            b = match self.underline {
                DecoD::None => b.reset_underline(),
                DecoD::TextColor => b.underline(),
                DecoD::Custom(c) => b.underline_with_color(C::nth(c)),
            };
            b = match self.strike {
                DecoD::None => b.reset_strikethrough(),
                DecoD::TextColor => b.strikethrough(),
                DecoD::Custom(c) => b.strikethrough_with_color(C::nth(c)),
            };
            let style = b.build();
            return self.finish_text(style, derived, f);
        }
        if let Some(c) = self.text_color {
            b = b.text_color(C::nth(c));
        }
        if let Some(c) = self.bg {
            b = b.background_color(C::nth(c));
        }
        b = match self.underline {
            DecoD::None => b,
            DecoD::TextColor => b.underline(),
            DecoD::Custom(c) => b.underline_with_color(C::nth(c)),
        };
        b = match self.strike {
            DecoD::None => b,
            DecoD::TextColor => b.strikethrough(),
            DecoD::Custom(c) => b.strikethrough_with_color(C::nth(c)),
        };
        let style = b.build();
        self.finish_text(style, derived, f)
    }
    fn finish_text<C: Col, R>(&self, style: MonoTextStyle<'_, C>, derived: bool, f: impl FnOnce(&Text<'_, MonoTextStyle<'_, C>>) -> R) -> R {
        let lh = match self.lh {
            LhD::Pixels(p) => LineHeight::Pixels(p),
            LhD::Percent(p) => LineHeight::Percent(p),
        };
        let ts = if derived && self.at.0 % 2 == 0 {
            // same alignment, other baseline and line height
            let other = TextStyleBuilder::new().alignment(alignment_of(self.align)).baseline(baseline_of((self.baseline + 1) % 4)).line_height(LineHeight::Pixels(3)).build();
            TextStyleBuilder::from(&other).baseline(baseline_of(self.baseline)).line_height(lh).build()
        } else if derived {
            // same baseline and line height, other alignment
            let other = TextStyleBuilder::new().alignment(alignment_of((self.align + 1) % 3)).baseline(baseline_of(self.baseline)).line_height(lh).build();
            TextStyleBuilder::from(&other).alignment(alignment_of(self.align)).build()
        } else {
            TextStyleBuilder::new().alignment(alignment_of(self.align)).baseline(baseline_of(self.baseline)).line_height(lh).build()
        };
        let t = Text::with_text_style(&self.text, pt(self.at), style, ts);
        f(&t)
    }
    /// resolves the font description and calls `f` with the MonoFont
    pub fn with_font<R>(&self, f: impl FnOnce(&MonoFont<'_>) -> R) -> R {
        match &self.font {
            FontD::Builtin(i) => f(crate::fonts::FONTS[*i].2),
            FontD::Custom(c) => c.with_font(f),
        }
    }
}

impl CustomFontD {
    pub fn with_font<R>(&self, f: impl FnOnce(&MonoFont<'_>) -> R) -> R {
        let str_mapping = StrGlyphMapping::new(&self.mapping, self.replacement);
        let n = self.glyph_chars.len();
        let fn_mapping = move |c: char| c as usize % n;
        let mapping: &dyn embedded_graphics::mono_font::mapping::GlyphMapping = if self.closure_mapping { &fn_mapping } else { &str_mapping };
        let image = ImageRaw::<BinaryColor>::new(&self.atlas, Size::new(self.image_w, self.image_h)).expect("custom font atlas length");
        let font = MonoFont {
            image,
            character_size: Size::new(self.cw, self.ch),
            character_spacing: self.spacing,
            baseline: self.baseline,
            strikethrough: DecorationDimensions::new(self.strike.0, self.strike.1),
            underline: DecorationDimensions::new(self.underline.0, self.underline.1),
            glyph_mapping: mapping,
        };
        f(&font)
    }
}

impl Desc {
    /// Work a drawable may legitimately hand to a target beyond what its bounding box suggests:
    /// the lines of a multi-line text overlap when the line height is smaller than the font, so the
    /// box does not bound the number of glyph pixels. Added to every step budget derived from a box.
    pub fn overlap_allowance(&self) -> u64 {
        match self {
            Desc::Text(t) => {
                let n = t.text.chars().count() as u64;
                let (cw, ch, sp) = t.with_font(|f| (f.character_size.width as u64, f.character_size.height as u64, f.character_spacing as u64));
                n * ((cw + sp) * (ch + 4) * 2 + 8) + 64
            }
            _ => 0,
        }
    }
    /// Constructs the concrete drawable and hands it to the visitor.
    pub fn visit<C: ZCol, V: Visitor<C>>(&self, v: &mut V) -> V::Out {
        match self {
            Desc::Styled(p, s) => {
                let st = s.build::<C>();
                match p {
                    Prim::Rect { tl, size } => v.visit(&Rectangle::new(pt(*tl), sz(*size)).into_styled(st), self),
                    Prim::Circle { tl, d } => v.visit(&Circle::new(pt(*tl), *d).into_styled(st), self),
                    Prim::Ellipse { tl, size } => v.visit(&Ellipse::new(pt(*tl), sz(*size)).into_styled(st), self),
                    Prim::RRect { tl, size, radii } => {
                        let r = RoundedRectangle::new(
                            Rectangle::new(pt(*tl), sz(*size)),
                            CornerRadii {
                                top_left: sz(radii[0]),
                                top_right: sz(radii[1]),
                                bottom_right: sz(radii[2]),
                                bottom_left: sz(radii[3]),
                            },
                        );
                        v.visit(&r.into_styled(st), self)
                    }
                    Prim::Tri { p } => v.visit(&Triangle::new(pt(p[0]), pt(p[1]), pt(p[2])).into_styled(st), self),
                    Prim::Line { a, b } => v.visit(&Line::new(pt(*a), pt(*b)).into_styled(st), self),
                    Prim::Polyline { pts, tr } => {
                        let pv: Vec<Point> = pts.iter().map(|&p| pt(p)).collect();
                        let pl = Polyline::new(&pv).translate(pt(*tr));
                        v.visit(&pl.into_styled(st), self)
                    }
                    Prim::Arc { tl, d, start, sweep } => v.visit(&Arc::new(pt(*tl), *d, start.deg(), sweep.deg()).into_styled(st), self),
                    Prim::Sector { tl, d, start, sweep } => v.visit(&Sector::new(pt(*tl), *d, start.deg(), sweep.deg()).into_styled(st), self),
                }
            }
            Desc::Image(img) => C::visit_image(img, self, v),
            Desc::Text(t) => t.with_font(|font| t.with_text::<C, _>(font, |text| v.visit(text, self))),
        }
    }
}

// ---------------------------------------------------------------- generators

#[derive(Clone, Copy, Debug)]
pub struct GenCfg {
    /// coordinates in -pos..=pos
    pub pos: i32,
    /// sizes in 0..=size
    pub size: u32,
    pub max_width: u32,
    pub dotted: bool,
}

impl GenCfg {
    pub const SMALL: GenCfg = GenCfg { pos: 24, size: 20, max_width: 7, dotted: false };
    pub const MEDIUM: GenCfg = GenCfg { pos: 80, size: 70, max_width: 12, dotted: false };
    /// as SMALL, but a quarter of the styles use `StrokeStyle::Dotted` (properties without a solid-stroke carve-out)
    pub const SMALL_DOTTED: GenCfg = GenCfg { pos: 24, size: 20, max_width: 7, dotted: true };
}

pub fn gen_style(rng: &mut Rng, cfg: &GenCfg) -> StyleD {
    let presence = rng.below(8);
    StyleD {
        fill: if presence & 1 == 1 || presence == 6 { Some(rng.u32r(1, 3)) } else { None },
        stroke: if presence & 2 == 2 || presence == 4 { Some(rng.u32r(4, 6)) } else { None },
        width: if rng.chance(1, 6) { 0 } else if rng.chance(1, 3) { 1 } else { rng.u32r(0, cfg.max_width) },
        align: rng.below(3) as u8,
        dotted: cfg.dotted && rng.chance(1, 4),
    }
}

fn gp(rng: &mut Rng, cfg: &GenCfg) -> P2 {
    (rng.i32r(-cfg.pos, cfg.pos), rng.i32r(-cfg.pos, cfg.pos))
}
fn gs(rng: &mut Rng, cfg: &GenCfg) -> u32 {
    match rng.below(6) {
        0 => rng.u32r(0, 2),
        1 => rng.u32r(0, 6.min(cfg.size)),
        _ => rng.u32r(0, cfg.size),
    }
}

pub fn gen_angle(rng: &mut Rng) -> f32 {
    match rng.below(5) {
        0 => *rng.pick(&[0.0, 90.0, 180.0, 270.0, 360.0, -90.0, 45.0, 30.0, 720.0, -360.0, 359.0, 1.0]),
        1 => (rng.i32r(-72, 72) * 10) as f32,
        2 => rng.i32r(-800, 800) as f32,
        _ => rng.f32r(-720.0, 720.0),
    }
}

pub fn gen_prim(rng: &mut Rng, cfg: &GenCfg, which: Option<usize>) -> Prim {
    let k = which.unwrap_or_else(|| rng.below(9) as usize);
    match k {
        0 => Prim::Rect { tl: gp(rng, cfg), size: (gs(rng, cfg), gs(rng, cfg)) },
        1 => Prim::Circle { tl: gp(rng, cfg), d: gs(rng, cfg) },
        2 => Prim::Ellipse { tl: gp(rng, cfg), size: (gs(rng, cfg), gs(rng, cfg)) },
        3 => {
            let size = (gs(rng, cfg), gs(rng, cfg));
            let mut r = |rng: &mut Rng| -> S2 {
                match rng.below(5) {
                    0 => (0, 0),
                    1 => (rng.u32r(0, size.0 / 2 + 1), rng.u32r(0, size.1 / 2 + 1)),
                    2 => (rng.u32r(0, size.0 * 3 + 2), rng.u32r(0, size.1 * 3 + 2)),
                    _ => {
                        let e = rng.u32r(0, size.0.min(size.1) / 2 + 2);
                        (e, e)
                    }
                }
            };
            let radii = if rng.chance(1, 2) {
                let e = r(rng);
                [e; 4]
            } else {
                [r(rng), r(rng), r(rng), r(rng)]
            };
            Prim::RRect { tl: gp(rng, cfg), size, radii }
        }
        4 => {
            let a = gp(rng, cfg);
            let near = |rng: &mut Rng, a: P2| (a.0 + rng.i32r(-(cfg.size as i32), cfg.size as i32), a.1 + rng.i32r(-(cfg.size as i32), cfg.size as i32));
            let b = if rng.chance(1, 12) { a } else { near(rng, a) };
            let c = if rng.chance(1, 12) { b } else { near(rng, a) };
            Prim::Tri { p: [a, b, c] }
        }
        5 => {
            let a = gp(rng, cfg);
            let b = match rng.below(6) {
                0 => a,
                1 => (a.0 + rng.i32r(-(cfg.size as i32), cfg.size as i32), a.1),
                2 => (a.0, a.1 + rng.i32r(-(cfg.size as i32), cfg.size as i32)),
                _ => (a.0 + rng.i32r(-(cfg.size as i32), cfg.size as i32), a.1 + rng.i32r(-(cfg.size as i32), cfg.size as i32)),
            };
            Prim::Line { a, b }
        }
        6 => {
            let n = rng.usizer(0, 6);
            let mut pts: Vec<P2> = Vec::new();
            let mut cur = gp(rng, cfg);
            for _ in 0..n {
                pts.push(cur);
                cur = match rng.below(8) {
                    0 => cur,                                            // repeated vertex
                    1 if pts.len() >= 2 => pts[pts.len() - 2],           // reversal
                    _ => (cur.0 + rng.i32r(-(cfg.size as i32) / 2 - 1, cfg.size as i32 / 2 + 1), cur.1 + rng.i32r(-(cfg.size as i32) / 2 - 1, cfg.size as i32 / 2 + 1)),
                };
            }
            let tr = if rng.chance(1, 2) { (0, 0) } else { (rng.i32r(-20, 20), rng.i32r(-20, 20)) };
            Prim::Polyline { pts, tr }
        }
        7 => Prim::Arc { tl: gp(rng, cfg), d: gs(rng, cfg), start: gen_angle(rng), sweep: gen_angle(rng) },
        _ => Prim::Sector { tl: gp(rng, cfg), d: gs(rng, cfg), start: gen_angle(rng), sweep: gen_angle(rng) },
    }
}

pub fn gen_styled(rng: &mut Rng, cfg: &GenCfg, which: Option<usize>) -> Desc {
    let p = gen_prim(rng, cfg, which);
    let mut s = gen_style(rng, cfg);
    if matches!(p, Prim::Line { .. } | Prim::Polyline { .. } | Prim::Arc { .. }) && s.stroke.is_none() && rng.chance(3, 4) {
        s.stroke = Some(rng.u32r(4, 6));
    }
    Desc::Styled(p, s)
}

/// rectangle with a dotted stroke (the only primitive that implements `StrokeStyle::Dotted`),
/// sizes up to 60 so that dots of every size class and all four sides appear
pub fn gen_dotted_rect(rng: &mut Rng) -> Desc {
    let size = match rng.below(5) {
        0 => (rng.u32r(0, 6), rng.u32r(0, 6)),
        // display-scale sides (dozens of dots per side: accumulated spacing errors show there)
        4 if rng.chance(1, 2) => (rng.u32r(100, 400), rng.u32r(8, 400)),
        4 => (rng.u32r(8, 400), rng.u32r(100, 400)),
        1 => (rng.u32r(0, 60), rng.u32r(0, 12)),
        2 => (rng.u32r(0, 12), rng.u32r(0, 60)),
        _ => (rng.u32r(0, 60), rng.u32r(0, 60)),
    };
    Desc::Styled(
        Prim::Rect { tl: (rng.i32r(-20, 30), rng.i32r(-20, 30)), size },
        StyleD { fill: if rng.chance(1, 3) { Some(rng.u32r(1, 3)) } else { None }, stroke: if rng.chance(9, 10) { Some(rng.u32r(4, 6)) } else { None }, width: rng.u32r(0, 12), align: rng.below(3) as u8, dotted: true },
    )
}

pub fn gen_image<C: Col>(rng: &mut Rng, max_w: u32, max_h: u32) -> Desc {
    // 1 in 12 images is wide (row strides/skips beyond 255)
    let (w, h) = if rng.chance(1, 12) { (rng.u32r(250, 420), rng.u32r(1, 3)) } else { (rng.u32r(0, max_w), rng.u32r(0, max_h)) };
    let data = rng.bytes(image_data_len::<C>(w, h));
    let mut subs = Vec::new();
    let mut cur = (w as i32, h as i32);
    let levels = match rng.below(4) {
        0 | 1 => 0,
        2 => 1,
        _ => 2,
    };
    for _ in 0..levels {
        let a = match rng.below(5) {
            0 => (rng.i32r(-2, cur.0), rng.i32r(-2, cur.1), rng.u32r(0, cur.0 as u32 + 3), rng.u32r(0, cur.1 as u32 + 3)),
            1 => (cur.0 + 1, 0, 2, 2),
            2 => (rng.i32r(0, cur.0), rng.i32r(0, cur.1), 0, rng.u32r(0, 2)),
            _ => {
                let x = rng.i32r(0, (cur.0 - 1).max(0));
                let y = rng.i32r(0, (cur.1 - 1).max(0));
                (x, y, rng.u32r(0, (cur.0 - x).max(0) as u32), rng.u32r(0, (cur.1 - y).max(0) as u32))
            }
        };
        // size of the resulting sub image (area clipped to the current image)
        let x0 = a.0.max(0);
        let y0 = a.1.max(0);
        let x1 = (a.0 + a.2 as i32).min(cur.0);
        let y1 = (a.1 + a.3 as i32).min(cur.1);
        cur = ((x1 - x0).max(0), (y1 - y0).max(0));
        subs.push(a);
    }
    Desc::Image(ImageD { w, h, data, at: (rng.i32r(-12, 40), rng.i32r(-12, 40)), big_endian: rng.chance(1, 2), subs })
}

pub const STRINGS: [&str; 17] = ["", "a", "Ag", "a\nbc", "\n", "ab\n", "a\r\nb", "\u{7f}\u{1}x", "Hello, World!", "jgQ|_^", "  x  ", "A\n\nBC", "\u{fffd}\u{1F600}z", "line1\nl2\r\nthird line", "\u{feff}AB", "x\n\u{feff}y\u{10ffff}", "\u{200b}\u{e0001}"];

/// Characters that text-processing code tends to treat specially (byte order mark, zero-width and
/// bidi marks, line/paragraph separators, NEL, soft hyphen, non-characters, the code points next to the
/// surrogate gap and at the plane boundaries). To this library they are ordinary characters - mapped
/// or, in every built-in font, unmapped (seeded `C15-14`: a leading U+FEFF stripped by `Text`).
pub const SPECIAL_CHARS: [char; 22] = [
    '\u{feff}', '\u{200b}', '\u{200e}', '\u{2028}', '\u{2029}', '\u{85}', '\u{ad}', '\u{a0}', '\u{fffe}', '\u{ffff}', '\u{d7ff}', '\u{e000}', '\u{10000}', '\u{3ffff}', '\u{40000}', '\u{e0001}',
    '\u{10ffff}', '\u{b}', '\u{c}', '\u{1b}', '\u{7ff}', '\u{800}',
];

pub fn gen_deco(rng: &mut Rng) -> DecoD {
    match rng.below(4) {
        0 | 1 => DecoD::None,
        2 => DecoD::TextColor,
        _ => DecoD::Custom(rng.u32r(7, 9)),
    }
}

pub fn gen_text_style(rng: &mut Rng, font: FontD, text: String) -> TextD {
    TextD {
        text,
        at: (rng.i32r(-30, 60), rng.i32r(-30, 60)),
        font,
        text_color: if rng.chance(3, 4) { Some(rng.u32r(1, 3)) } else { None },
        bg: if rng.chance(1, 2) { Some(rng.u32r(4, 6)) } else { None },
        underline: gen_deco(rng),
        strike: gen_deco(rng),
        baseline: rng.below(4) as u8,
        align: rng.below(3) as u8,
        lh: match rng.below(6) {
            0 => LhD::Pixels(*rng.pick(&[0, 1, 7, 40])),
            // any percentage up to 1000 half of the time: the absolute height is a quotient, and
            // an inexact division shows only for particular products (seeded `C15-12`)
            1 => LhD::Percent(if rng.chance(1, 2) { *rng.pick(&[0, 50, 250]) } else { rng.u32r(0, 1000) }),
            2 => LhD::Pixels(rng.u32r(0, 30)),
            _ => LhD::Percent(100),
        },
    }
}

pub fn gen_string(rng: &mut Rng) -> String {
    if rng.chance(1, 2) {
        return rng.pick(&STRINGS).to_string();
    }
    // 1 in 40 strings is long (more than 255 characters per line / in total)
    let n = if rng.chance(1, 40) { rng.usizer(250, 330) } else { rng.usizer(0, 10) };
    // 1 in 120 strings has more than 255 (mostly very short) lines
    let many_lines = rng.chance(1, 120);
    let n = if many_lines { rng.usizer(500, 640) } else { n };
    let mut s = String::new();
    for _ in 0..n {
        let c = match rng.below(12) {
            0 => '\n',
            5 | 6 | 7 | 8 if many_lines => '\n',
            1 => ' ',
            2 => char::from_u32(rng.u32r(0xA0, 0xFF)).unwrap(),
            3 => *rng.pick(&['\u{0}', '\t', '\u{7f}', '\u{fffd}', '\u{1F600}', 'ｱ', 'Ω', 'Ж', '\r']),
            // a line whose content ends with a carriage return, followed by a CR LF line ending
            9 if rng.chance(1, 6) => {
                s.push_str("\r\r");
                '\n'
            }
            4 if rng.chance(1, 2) => {
                s.push('\r');
                '\n'
            }
            _ => char::from_u32(rng.u32r(0x21, 0x7E)).unwrap(),
        };
        s.push(c);
    }
    // special characters at the places where text code looks for them: the very beginning, the
    // beginning of a line, the end
    if rng.chance(1, 6) {
        let mut t = String::new();
        if rng.chance(1, 2) {
            t.push(*rng.pick(&SPECIAL_CHARS));
        }
        for c in s.chars() {
            t.push(c);
            if c == '\n' && rng.chance(1, 3) {
                t.push(*rng.pick(&SPECIAL_CHARS));
            }
        }
        if rng.chance(1, 3) {
            t.push(*rng.pick(&SPECIAL_CHARS));
        }
        s = t;
    }
    // a carriage return is either line content (an unmapped character) or the first half of a CR LF
    // line ending; what a CR at the very end of the text means is not fixed by any statement, so
    // generated strings never end with one
    if s.ends_with('\r') {
        s.push('\n');
    }
    s
}

/// random custom font: atlas with `per_row` glyph cells per row, optional slack columns
/// A font with tens of thousands of glyphs (as a CJK font has): glyph indices beyond 16 bits, an
/// atlas of one very long row (up to 140 000 pixels) or of hundreds of rows; tiny cells keep it cheap.
fn gen_huge_font(rng: &mut Rng) -> CustomFontD {
    let cw = rng.u32r(1, 2);
    let ch = rng.u32r(1, 2);
    let glyphs = match rng.below(4) {
        0 => rng.u32r(65_530, 65_600),
        1 => 70_000,
        2 => rng.u32r(30_000, 40_000),
        _ => rng.u32r(65_537, 69_000),
    };
    let per_row = match rng.below(4) {
        0 => glyphs,
        1 => 256,
        2 => (65_536 / cw).max(1) + rng.u32r(0, 3),
        _ => rng.u32r(300, 1100),
    };
    let rows = (glyphs + per_row - 1) / per_row;
    let image_w = cw * per_row + if rng.chance(1, 3) { rng.u32r(0, cw - 1) } else { 0 };
    let image_h = rows * ch;
    let atlas = rng.bytes(crate::rawmodel::stride(image_w, 1) * image_h as usize);
    // consecutive code points of the supplementary planes (no surrogates in between)
    let first = 0x10000u32 + rng.u32r(0, 0x400);
    let glyph_chars: Vec<char> = (0..glyphs).map(|k| char::from_u32(first + k).unwrap()).collect();
    let mut mapping = String::new();
    mapping.push('\0');
    mapping.push(glyph_chars[0]);
    mapping.push(*glyph_chars.last().unwrap());
    CustomFontD {
        image_w,
        image_h,
        atlas,
        cw,
        ch,
        spacing: if rng.chance(1, 2) { 0 } else { 1 },
        baseline: rng.u32r(0, ch - 1),
        underline: (rng.u32r(0, ch + 1), 1),
        strike: (rng.u32r(0, ch - 1), 1),
        mapping,
        replacement: rng.usizer(0, glyphs as usize - 1),
        glyph_chars,
        closure_mapping: rng.chance(1, 8),
    }
}

pub fn gen_custom_font(rng: &mut Rng) -> CustomFontD {
    // 1 in 80: tens of thousands of glyphs
    if rng.chance(1, 80) {
        return gen_huge_font(rng);
    }
    let cw = rng.u32r(1, 7);
    let ch = rng.u32r(1, 9);
    // 1 in 10 fonts has a wide atlas (more than 256 pixels per row) with many glyphs
    let wide = rng.chance(1, 10);
    // 1 in 12 of the others has a tall atlas (more than 255 rows): one or two glyphs per row
    let tall = !wide && rng.chance(1, 12);
    let per_row = if wide { rng.u32r(260 / cw + 1, 420 / cw + 1) } else if tall { rng.u32r(1, 2) } else { rng.u32r(1, 7) };
    let glyphs = if wide { rng.u32r(per_row + 1, per_row * 2 + 3).min(180) } else if tall { rng.u32r(256 / ch + 2, 256 / ch + 40).min(180) * per_row.min(1) } else { rng.u32r(1, 12) };
    let rows = (glyphs + per_row - 1) / per_row;
    let image_w = cw * per_row + if rng.chance(1, 3) { rng.u32r(0, cw - 1) } else { 0 };
    let image_h = rows * ch;
    let atlas = rng.bytes(crate::rawmodel::stride(image_w, 1) * image_h as usize);
    // mapping: `glyphs` distinct characters. Mostly consecutive from 'a'; 1 in 4 fonts uses several
    // runs from different scripts (multi-byte, non-consecutive, not sorted by code point)
    let mut glyph_chars: Vec<char> = Vec::new();
    if !wide && !tall && rng.chance(1, 4) {
        const BASES: [u32; 9] = ['0' as u32, 'A' as u32, 'a' as u32, 'p' as u32, 0xC0, 0x410, 0xFF71, 0x20AC, 0x3B1];
        let mut guard = 0;
        while (glyph_chars.len() as u32) < glyphs && guard < 200 {
            guard += 1;
            let base = *rng.pick(&BASES) + rng.u32r(0, 3);
            for k in 0..rng.u32r(1, 6) {
                if let Some(c) = char::from_u32(base + k) {
                    if (glyph_chars.len() as u32) < glyphs && !glyph_chars.contains(&c) {
                        glyph_chars.push(c);
                    }
                }
            }
        }
    }
    let mut next = 'a' as u32;
    while (glyph_chars.len() as u32) < glyphs {
        let c = char::from_u32(next).unwrap();
        if !glyph_chars.contains(&c) {
            glyph_chars.push(c);
        }
        next += 1;
    }
    // encoding: all characters listed, or runs of >= 3 consecutive code points as NUL-marked ranges
    let use_ranges = rng.chance(1, 2);
    let mut mapping = String::new();
    let mut i = 0;
    while i < glyph_chars.len() {
        let mut j = i;
        while j + 1 < glyph_chars.len() && glyph_chars[j + 1] as u32 == glyph_chars[j] as u32 + 1 {
            j += 1;
        }
        if use_ranges && j - i >= 2 {
            mapping.push('\0');
            mapping.push(glyph_chars[i]);
            mapping.push(glyph_chars[j]);
        } else {
            for c in &glyph_chars[i..=j] {
                mapping.push(*c);
            }
        }
        i = j + 1;
    }
    let closure_mapping = rng.chance(1, 16);
    CustomFontD {
        image_w,
        image_h,
        atlas,
        cw,
        ch,
        spacing: if rng.chance(1, 3) { 0 } else { rng.u32r(1, 3) },
        baseline: rng.u32r(0, ch - 1),
        // decoration heights 1..=3 (every built-in font uses 1)
        underline: (rng.u32r(0, ch + 2), rng.u32r(1, 3)),
        strike: (rng.u32r(0, ch - 1), rng.u32r(1, 3)),
        mapping,
        replacement: rng.usizer(0, glyphs as usize - 1),
        glyph_chars,
        closure_mapping,
    }
}

pub fn gen_custom_string(rng: &mut Rng, f: &CustomFontD) -> String {
    let n = if rng.chance(1, 40) { rng.usizer(250, 330) } else { rng.usizer(0, 7) };
    let mut s = String::new();
    for _ in 0..n {
        match rng.below(10) {
            0 => s.push('\n'),
            1 => {
                // unmapped: next to a mapped character, and code points that alias a mapped
                // character when the upper bits are lost (c + k * 0x10000, c + 0x100)
                let g = *rng.pick(&f.glyph_chars) as u32;
                let c = match rng.below(8) {
                    0 | 1 => '?' as u32,
                    2 => g.saturating_sub(1),
                    3 => g + 1,
                    4 | 5 => g + 0x10000 * rng.u32r(1, 16),
                    6 => g + 0x100 * rng.u32r(1, 3),
                    _ => *rng.pick(&[0x10FFFFu32, 0x20, 0x41, 0xFFFD, 0x1F600, 0x1]),
                };
                let c = char::from_u32(c).filter(|c| !matches!(c, '\n' | '\r' | '\0')).unwrap_or('?');
                // (a neighbour of a mapped character may itself be mapped: then it simply is one)
                s.push(c);
            }
            _ => s.push(*rng.pick(&f.glyph_chars)),
        }
    }
    s
}

pub fn gen_text(rng: &mut Rng, custom_share: (u64, u64)) -> Desc {
    if rng.chance(custom_share.0, custom_share.1) {
        let f = gen_custom_font(rng);
        let s = gen_custom_string(rng, &f);
        Desc::Text(gen_text_style(rng, FontD::Custom(f), s))
    } else {
        let fi = rng.usizer(0, crate::fonts::FONTS.len() - 1);
        let s = gen_string(rng);
        Desc::Text(gen_text_style(rng, FontD::Builtin(fi), s))
    }
}

/// any drawable of the zoo
pub fn gen_any<C: Col>(rng: &mut Rng, cfg: &GenCfg) -> Desc {
    match rng.below(12) {
        0..=7 => gen_styled(rng, cfg, None),
        8 | 9 => gen_image::<C>(rng, 9, 6),
        _ => gen_text(rng, (1, 4)),
    }
}
