// Scans the repository's generated font modules (in the tree the harness is being built against)
// and emits a table of every built-in font, so "all built-in fonts" always means the fonts of the
// current working tree.
use std::{env, fs, path::PathBuf};

fn main() {
    let repo = env::var("EGMON_REPO").unwrap_or_else(|_| "/repo".to_string());
    println!("cargo:rerun-if-env-changed=EGMON_REPO");
    let dir = PathBuf::from(&repo).join("src/mono_font/generated");
    println!("cargo:rerun-if-changed={}", dir.display());
    let mut out = String::new();
    out.push_str("pub static FONTS: &[(&str, &str, &embedded_graphics::mono_font::MonoFont<'static>)] = &[\n");
    let mut files: Vec<_> = fs::read_dir(&dir)
        .unwrap_or_else(|e| panic!("cannot read {}: {}", dir.display(), e))
        .filter_map(|e| e.ok())
        .map(|e| e.path())
        .filter(|p| p.extension().map(|e| e == "rs").unwrap_or(false))
        .collect();
    files.sort();
    let mut n = 0;
    for f in files {
        let module = f.file_stem().unwrap().to_str().unwrap().to_string();
        if module == "mod" {
            continue;
        }
        let text = fs::read_to_string(&f).unwrap();
        for line in text.lines() {
            let line = line.trim_start();
            if let Some(rest) = line.strip_prefix("pub const ") {
                if let Some(colon) = rest.find(':') {
                    let name = rest[..colon].trim();
                    if name.starts_with("FONT_") && rest[colon..].contains("MonoFont") {
                        out.push_str(&format!(
                            "    (\"{m}\", \"{n}\", &embedded_graphics::mono_font::{m}::{n}),\n",
                            m = module,
                            n = name
                        ));
                        n += 1;
                    }
                }
            }
        }
    }
    out.push_str("];\n");
    assert!(n > 0, "no built-in fonts found under {}", dir.display());
    let dest = PathBuf::from(env::var("OUT_DIR").unwrap()).join("fonts.rs");
    fs::write(dest, out).unwrap();
}
